(* Executable FINITE abstraction of the association set-up of association.go:
   initClient / initServer / initWithOutOfBandTokens (SNAP), handleInit, handleInitAck,
   handleCookieEcho, handleCookieAck, establish / updateInterleavingState / setSendZeroChecksum,
   completeHandshake, the T1-init / T1-cookie branches of onRetransmissionTimeout /
   onRetransmissionFailure and the retry counter of rtxTimer.timeout (rtx_timer.go).
   No proofs in this file.

   Endpoint = the projection of Association the handshake reads and writes.  Packets are abstract:
   kind + the content flags the handlers look at (supported-extension bits, zero-checksum parameter,
   presence of the state cookie, "the echoed cookie equals the receiver's cookie").  Tags, TSNs, stream
   counts, rwnd and ports are not modelled (handshake control flow does not branch on them: ports are the
   constant 5000 on both sides, verification tags are never checked on receipt).

   Handlers are modelled branch by branch, including what they do in "wrong" states.  Out of scope:
   the shutdown states (handleInit's shutdownAckSent branch, COOKIE-ECHO in shutdown states), and the
   error return of pendingQueue.setInterleaving (only possible when user data was queued before the
   handshake finished, which the public API does not allow: the caller has no *Association yet). *)
From Coq Require Import ZArith Bool List Arith PeanoNat FMapPositive.
From Sctp Require Import Gen.
Import ListNotations.

(* ------------------------------------------------------------------ endpoint *)

Inductive hs_state := HsClosed | HsCookieWait | HsCookieEchoed | HsEstablished.

(* the generated association-state constants *)
Definition hs_state_code (s : hs_state) : Z :=
  match s with
  | HsClosed => c_closed | HsCookieWait => c_cookieWait
  | HsCookieEchoed => c_cookieEchoed | HsEstablished => c_established
  end.

Definition hs_state_of_code (z : Z) : option hs_state :=
  if Z.eqb z c_closed then Some HsClosed
  else if Z.eqb z c_cookieWait then Some HsCookieWait
  else if Z.eqb z c_cookieEchoed then Some HsCookieEchoed
  else if Z.eqb z c_established then Some HsEstablished
  else None.

Inductive hs_role := HsClient | HsServer | HsSnap.

(* what the connect call (ClientWithOptions / ServerWithOptions) received on handshakeCompletedCh *)
Inductive hs_res := HsResNone | HsResOk | HsResErrInit | HsResErrCookie.

(* zero-checksum-acceptable parameter: absent / EDMID = DTLS (1) / another EDMID *)
Inductive hs_zca := HsZcaNone | HsZcaDtls | HsZcaOther.

(* error value returned by a handler (handleChunk only logs it) *)
Inductive hs_herr := HsENone | HsEInitState | HsENoCookie.

Record hs_ep := mkHsEp {
  hs_started : bool;   (* readLoop / writeLoop running *)
  hs_role_of : hs_role;
  hs_lil : bool;       (* localInterleaving (option) *)
  hs_rzc : bool;       (* recvZeroChecksum (option EnableZeroChecksum) *)
  hs_st : hs_state;
  hs_pil : bool;       (* peerInterleaving *)
  hs_pfwd : bool;      (* peerForwardTSN *)
  hs_pifwd : bool;     (* peerIForwardTSN *)
  hs_szc : bool;       (* sendZeroChecksum *)
  hs_uil : bool;       (* useInterleaving *)
  hs_ufwd : bool;      (* useForwardTSN *)
  hs_uifwd : bool;     (* useIForwardTSN *)
  hs_cookie : bool;    (* myCookie != nil *)
  hs_sinit : bool;     (* storedInit != nil *)
  hs_secho : bool;     (* storedCookieEcho != nil *)
  hs_t1i : bool;       (* t1Init.state == rtxTimerStarted *)
  hs_ni : nat;         (* t1Init.nRtos *)
  hs_t1c : bool;       (* t1Cookie.state == rtxTimerStarted *)
  hs_nc : nat;         (* t1Cookie.nRtos *)
  hs_res_of : hs_res;  (* value delivered to the connect call *)
  hs_frozen : bool     (* a second completeHandshake blocks for ever with a.lock held: nobody receives
                          from handshakeCompletedCh any more *)
}.

Inductive hs_pkt :=
| HsInit (fwd idata ifwd : bool) (zca : hs_zca)
| HsInitAck (fwd idata ifwd : bool) (zca : hs_zca) (ck : bool)   (* ck: a state-cookie parameter is present *)
| HsCookieEcho (mine : bool)                                     (* the cookie equals the RECEIVER's myCookie *)
| HsCookieAck.

Inductive hs_ev :=
| HsStart                              (* initClient / initServer *)
| HsStartSnap (tok : hs_pkt)           (* initWithOutOfBandTokens with the peer's token (an INIT chunk) *)
| HsDeliver (p : hs_pkt)
| HsT1Init                             (* rtxTimer.timeout of T1-init *)
| HsT1Cookie.

(* Max.Init.Retransmits, from the generated constant *)
Definition hs_maxr : nat := Z.to_nat c_maxInitRetrans.

(* ---- field updates *)
Definition hs_with_started (e : hs_ep) (b : bool) : hs_ep :=
  mkHsEp b (hs_role_of e) (hs_lil e) (hs_rzc e) (hs_st e) (hs_pil e) (hs_pfwd e) (hs_pifwd e) (hs_szc e)
         (hs_uil e) (hs_ufwd e) (hs_uifwd e) (hs_cookie e) (hs_sinit e) (hs_secho e)
         (hs_t1i e) (hs_ni e) (hs_t1c e) (hs_nc e) (hs_res_of e) (hs_frozen e).
Definition hs_with_st (e : hs_ep) (s : hs_state) : hs_ep :=
  mkHsEp (hs_started e) (hs_role_of e) (hs_lil e) (hs_rzc e) s (hs_pil e) (hs_pfwd e) (hs_pifwd e) (hs_szc e)
         (hs_uil e) (hs_ufwd e) (hs_uifwd e) (hs_cookie e) (hs_sinit e) (hs_secho e)
         (hs_t1i e) (hs_ni e) (hs_t1c e) (hs_nc e) (hs_res_of e) (hs_frozen e).
Definition hs_with_caps (e : hs_ep) (pil pfwd pifwd szc : bool) : hs_ep :=
  mkHsEp (hs_started e) (hs_role_of e) (hs_lil e) (hs_rzc e) (hs_st e) pil pfwd pifwd szc
         (hs_uil e) (hs_ufwd e) (hs_uifwd e) (hs_cookie e) (hs_sinit e) (hs_secho e)
         (hs_t1i e) (hs_ni e) (hs_t1c e) (hs_nc e) (hs_res_of e) (hs_frozen e).
Definition hs_with_use (e : hs_ep) (uil ufwd uifwd : bool) : hs_ep :=
  mkHsEp (hs_started e) (hs_role_of e) (hs_lil e) (hs_rzc e) (hs_st e) (hs_pil e) (hs_pfwd e) (hs_pifwd e) (hs_szc e)
         uil ufwd uifwd (hs_cookie e) (hs_sinit e) (hs_secho e)
         (hs_t1i e) (hs_ni e) (hs_t1c e) (hs_nc e) (hs_res_of e) (hs_frozen e).
Definition hs_with_cookie (e : hs_ep) (b : bool) : hs_ep :=
  mkHsEp (hs_started e) (hs_role_of e) (hs_lil e) (hs_rzc e) (hs_st e) (hs_pil e) (hs_pfwd e) (hs_pifwd e) (hs_szc e)
         (hs_uil e) (hs_ufwd e) (hs_uifwd e) b (hs_sinit e) (hs_secho e)
         (hs_t1i e) (hs_ni e) (hs_t1c e) (hs_nc e) (hs_res_of e) (hs_frozen e).
Definition hs_with_sinit (e : hs_ep) (b : bool) : hs_ep :=
  mkHsEp (hs_started e) (hs_role_of e) (hs_lil e) (hs_rzc e) (hs_st e) (hs_pil e) (hs_pfwd e) (hs_pifwd e) (hs_szc e)
         (hs_uil e) (hs_ufwd e) (hs_uifwd e) (hs_cookie e) b (hs_secho e)
         (hs_t1i e) (hs_ni e) (hs_t1c e) (hs_nc e) (hs_res_of e) (hs_frozen e).
Definition hs_with_secho (e : hs_ep) (b : bool) : hs_ep :=
  mkHsEp (hs_started e) (hs_role_of e) (hs_lil e) (hs_rzc e) (hs_st e) (hs_pil e) (hs_pfwd e) (hs_pifwd e) (hs_szc e)
         (hs_uil e) (hs_ufwd e) (hs_uifwd e) (hs_cookie e) (hs_sinit e) b
         (hs_t1i e) (hs_ni e) (hs_t1c e) (hs_nc e) (hs_res_of e) (hs_frozen e).
Definition hs_with_t1i (e : hs_ep) (run : bool) (n : nat) : hs_ep :=
  mkHsEp (hs_started e) (hs_role_of e) (hs_lil e) (hs_rzc e) (hs_st e) (hs_pil e) (hs_pfwd e) (hs_pifwd e) (hs_szc e)
         (hs_uil e) (hs_ufwd e) (hs_uifwd e) (hs_cookie e) (hs_sinit e) (hs_secho e)
         run n (hs_t1c e) (hs_nc e) (hs_res_of e) (hs_frozen e).
Definition hs_with_t1c (e : hs_ep) (run : bool) (n : nat) : hs_ep :=
  mkHsEp (hs_started e) (hs_role_of e) (hs_lil e) (hs_rzc e) (hs_st e) (hs_pil e) (hs_pfwd e) (hs_pifwd e) (hs_szc e)
         (hs_uil e) (hs_ufwd e) (hs_uifwd e) (hs_cookie e) (hs_sinit e) (hs_secho e)
         (hs_t1i e) (hs_ni e) run n (hs_res_of e) (hs_frozen e).
Definition hs_with_res (e : hs_ep) (r : hs_res) : hs_ep :=
  mkHsEp (hs_started e) (hs_role_of e) (hs_lil e) (hs_rzc e) (hs_st e) (hs_pil e) (hs_pfwd e) (hs_pifwd e) (hs_szc e)
         (hs_uil e) (hs_ufwd e) (hs_uifwd e) (hs_cookie e) (hs_sinit e) (hs_secho e)
         (hs_t1i e) (hs_ni e) (hs_t1c e) (hs_nc e) r (hs_frozen e).
Definition hs_with_frozen (e : hs_ep) (b : bool) : hs_ep :=
  mkHsEp (hs_started e) (hs_role_of e) (hs_lil e) (hs_rzc e) (hs_st e) (hs_pil e) (hs_pfwd e) (hs_pifwd e) (hs_szc e)
         (hs_uil e) (hs_ufwd e) (hs_uifwd e) (hs_cookie e) (hs_sinit e) (hs_secho e)
         (hs_t1i e) (hs_ni e) (hs_t1c e) (hs_nc e) (hs_res_of e) b.

(* createAssociationFromConfigWithTsn: state closed, nothing learned, options from the Config *)
Definition hs_new (role : hs_role) (il zc : bool) : hs_ep :=
  mkHsEp false role il zc HsClosed false false false false false false false false false false
         false 0 false 0 HsResNone false.

(* what this endpoint advertises: setSupportedExtensions lists RECONFIG, FORWARD-TSN and, with
   interleaving enabled, I-DATA and I-FORWARD-TSN; the zero-checksum parameter iff recvZeroChecksum *)
Definition hs_zca_of (rzc : bool) : hs_zca := if rzc then HsZcaDtls else HsZcaNone.
Definition hs_my_init (e : hs_ep) : hs_pkt := HsInit true (hs_lil e) (hs_lil e) (hs_zca_of (hs_rzc e)).
Definition hs_my_init_ack (e : hs_ep) : hs_pkt := HsInitAck true (hs_lil e) (hs_lil e) (hs_zca_of (hs_rzc e)) true.

(* "case *paramZeroChecksumAcceptable: a.sendZeroChecksum = val.edmid == dtlsErrorDetectionMethod";
   without the parameter the field keeps its value *)
Definition hs_apply_zca (z : hs_zca) (cur : bool) : bool :=
  match z with HsZcaNone => cur | HsZcaDtls => true | HsZcaOther => false end.

(* updateInterleavingState *)
Definition hs_update_il (e : hs_ep) : hs_ep :=
  let u := hs_lil e && hs_pil e in
  if u then hs_with_use e true false (hs_pifwd e && hs_lil e)
  else hs_with_use e false (hs_pfwd e) false.

(* completeHandshake: the first value is received by the connect call; a later call finds no receiver
   and blocks (the association is neither closed nor referenced by anybody) *)
Definition hs_complete (e : hs_ep) (r : hs_res) : hs_ep * bool :=
  match hs_res_of e with
  | HsResNone => (hs_with_res e r, true)
  | _ => (hs_with_frozen e true, false)
  end.

(* rtxTimer.start: only from the stopped state; nRtos := 0 *)
Definition hs_start_t1i (e : hs_ep) : hs_ep := if hs_t1i e then e else hs_with_t1i e true 0.
Definition hs_start_t1c (e : hs_ep) : hs_ep := if hs_t1c e then e else hs_with_t1c e true 0.
(* rtxTimer.stop: nRtos keeps its value *)
Definition hs_stop_t1i (e : hs_ep) : hs_ep := hs_with_t1i e false (hs_ni e).
Definition hs_stop_t1c (e : hs_ep) : hs_ep := hs_with_t1c e false (hs_nc e).

Definition hs_out : Type := (hs_ep * list hs_pkt * hs_herr)%type.

(* handleInit *)
Definition hs_handle_init (e : hs_ep) (fwd idata ifwd : bool) (zca : hs_zca) : hs_out :=
  match hs_st e with
  | HsEstablished => (e, [], HsEInitState)
  | _ =>
    let e1 := hs_with_caps e idata fwd ifwd (hs_apply_zca zca (hs_szc e)) in
    let e2 := hs_update_il e1 in
    let e3 := hs_with_cookie e2 true in
    (e3, [hs_my_init_ack e], HsENone)
  end.

(* handleInitAck *)
Definition hs_handle_init_ack (e : hs_ep) (fwd idata ifwd : bool) (zca : hs_zca) (ck : bool) : hs_out :=
  match hs_st e with
  | HsCookieWait =>
    let e1 := hs_with_sinit (hs_stop_t1i e) false in
    let e2 := hs_with_caps e1 idata fwd ifwd (hs_apply_zca zca (hs_szc e)) in
    let e3 := hs_update_il e2 in
    if ck then
      let e4 := hs_with_secho e3 true in
      let e5 := hs_start_t1c e4 in
      (hs_with_st e5 HsCookieEchoed, [HsCookieEcho true], HsENone)
    else (e3, [], HsENoCookie)
  | _ => (e, [], HsENone)
  end.

(* establish + completeHandshake(nil) *)
Definition hs_establish (e : hs_ep) : hs_ep * bool :=
  hs_complete (hs_with_st (hs_update_il e) HsEstablished) HsResOk.

(* handleCookieEcho *)
Definition hs_handle_cookie_echo (e : hs_ep) (mine : bool) : hs_out :=
  if negb (hs_cookie e) then (e, [], HsENone) else
  match hs_st e with
  | HsEstablished => if mine then (e, [HsCookieAck], HsENone) else (e, [], HsENone)
  | _ =>
    if mine then
      let e1 := hs_with_sinit (hs_stop_t1i e) false in
      let e2 := hs_with_secho (hs_stop_t1c e1) false in
      let (e3, ok) := hs_establish e2 in
      (e3, if ok then [HsCookieAck] else [], HsENone)
    else (e, [], HsENone)
  end.

(* handleCookieAck *)
Definition hs_handle_cookie_ack (e : hs_ep) : hs_out :=
  match hs_st e with
  | HsCookieEchoed =>
    let e1 := hs_with_secho (hs_stop_t1c e) false in
    (fst (hs_establish e1), [], HsENone)
  | _ => (e, [], HsENone)
  end.

Definition hs_deliver (e : hs_ep) (p : hs_pkt) : hs_out :=
  match p with
  | HsInit fwd idata ifwd zca => hs_handle_init e fwd idata ifwd zca
  | HsInitAck fwd idata ifwd zca ck => hs_handle_init_ack e fwd idata ifwd zca ck
  | HsCookieEcho mine => hs_handle_cookie_echo e mine
  | HsCookieAck => hs_handle_cookie_ack e
  end.

(* rtxTimer.timeout for T1-init: nRtos++; retransmit while maxRetrans == 0 || nRtos <= maxRetrans,
   otherwise state := stopped and onRetransmissionFailure -> completeHandshake(ErrHandshakeInitAck).
   onRetransmissionTimeout(T1-init) = sendInit (an error, nothing sent, when storedInit == nil). *)
Definition hs_t1_init_expire (e : hs_ep) : hs_out :=
  if negb (hs_t1i e) then (e, [], HsENone) else
  let n := S (hs_ni e) in
  if Nat.eqb hs_maxr 0 || Nat.leb n hs_maxr then
    (hs_with_t1i e true n, if hs_sinit e then [hs_my_init e] else [], HsENone)
  else
    (fst (hs_complete (hs_with_t1i e false n) HsResErrInit), [], HsENone).

Definition hs_t1_cookie_expire (e : hs_ep) : hs_out :=
  if negb (hs_t1c e) then (e, [], HsENone) else
  let n := S (hs_nc e) in
  if Nat.eqb hs_maxr 0 || Nat.leb n hs_maxr then
    (hs_with_t1c e true n, if hs_secho e then [HsCookieEcho true] else [], HsENone)
  else
    (fst (hs_complete (hs_with_t1c e false n) HsResErrCookie), [], HsENone).

(* initClient: store and send INIT, state cookieWait, start T1-init.   initServer: loops only. *)
Definition hs_start (e : hs_ep) : hs_out :=
  match hs_role_of e with
  | HsClient =>
    let e1 := hs_with_sinit (hs_with_started e true) true in
    (hs_start_t1i (hs_with_st e1 HsCookieWait), [hs_my_init e], HsENone)
  | _ => (hs_with_started e true, [], HsENone)
  end.

(* createSNAPAssociation / initWithOutOfBandTokens: capabilities from the remote token (an INIT chunk:
   getSupportedExtensions, setSendZeroChecksum), establish, and the call returns the association *)
Definition hs_start_snap (e : hs_ep) (tok : hs_pkt) : hs_out :=
  match tok with
  | HsInit fwd idata ifwd zca =>
    let e1 := hs_with_caps (hs_with_started e true) idata fwd ifwd (hs_apply_zca zca (hs_szc e)) in
    let e2 := hs_with_st (hs_update_il e1) HsEstablished in
    (hs_with_res e2 HsResOk, [], HsENone)
  | _ => (e, [], HsENone)
  end.

(* one event at one endpoint.  A frozen endpoint does nothing (its read loop / timer goroutine waits for
   a.lock for ever); before start there is no read loop and no timer. *)
Definition hs_ep_step (e : hs_ep) (ev : hs_ev) : hs_out :=
  if hs_frozen e then (e, [], HsENone) else
  match ev with
  | HsStart => if hs_started e then (e, [], HsENone) else hs_start e
  | HsStartSnap tok => if hs_started e then (e, [], HsENone) else hs_start_snap e tok
  | HsDeliver p => if hs_started e then hs_deliver e p else (e, [], HsENone)
  | HsT1Init => hs_t1_init_expire e
  | HsT1Cookie => hs_t1_cookie_expire e
  end.

(* ------------------------------------------------------------------ T1 timing (whole milliseconds) *)

(* calculateNextTimeout *)
Definition hs_next_timeout_ms (rto : Z) (n : nat) (rtoMax : Z) : Z :=
  if Nat.ltb n 31 then Z.min (rto * 2 ^ Z.of_nat n) rtoMax else rtoMax.

(* virtual time of the k-th expiry after start: the timer is armed with calculateNextTimeout(rto, nRtos)
   for nRtos = 0, 1, ... *)
Fixpoint hs_t1_expiry_time (rto rtoMax : Z) (k : nat) : Z :=
  match k with
  | O => 0%Z
  | S k' => (hs_t1_expiry_time rto rtoMax k' + hs_next_timeout_ms rto k' rtoMax)%Z
  end.

(* the connect call fails at the (maxInitRetrans+1)-th expiry *)
Definition hs_t1_fail_time (rto rtoMax : Z) : Z := hs_t1_expiry_time rto rtoMax (S hs_maxr).

(* ------------------------------------------------------------------ two endpoints + network *)

(* the network is the SET of packets emitted so far, tagged with the sender (false = A, true = B):
   any element can be delivered at any time, any number of times (reordering, duplication); never
   delivering it is loss.  Kept sorted by code so that equal sets are equal lists. *)
Definition hs_zca_code (z : hs_zca) : N := match z with HsZcaNone => 0 | HsZcaDtls => 1 | HsZcaOther => 2 end%N.
Definition hs_b2n (b : bool) : N := if b then 1%N else 0%N.
Definition hs_pkt_code (p : hs_pkt) : N :=
  match p with
  | HsInit f i g z => (0 + 4 * (hs_b2n f + 2 * (hs_b2n i + 2 * (hs_b2n g + 2 * hs_zca_code z))))%N
  | HsInitAck f i g z c => (1 + 4 * (hs_b2n f + 2 * (hs_b2n i + 2 * (hs_b2n g + 2 * (hs_b2n c + 2 * hs_zca_code z)))))%N
  | HsCookieEcho m => (2 + 4 * hs_b2n m)%N
  | HsCookieAck => 3%N
  end.
Definition hs_np_code (x : bool * hs_pkt) : N := (hs_b2n (fst x) + 2 * hs_pkt_code (snd x))%N.

Fixpoint hs_net_ins (x : bool * hs_pkt) (l : list (bool * hs_pkt)) : list (bool * hs_pkt) :=
  match l with
  | [] => [x]
  | y :: r =>
    match N.compare (hs_np_code x) (hs_np_code y) with
    | Eq => l
    | Lt => x :: l
    | Gt => y :: hs_net_ins x r
    end
  end.

Record hs_sys := mkHsSys { hs_a : hs_ep; hs_b : hs_ep; hs_net : list (bool * hs_pkt) }.

Definition hs_side (s : hs_sys) (x : bool) : hs_ep := if x then hs_b s else hs_a s.

Definition hs_emit (x : bool) (outs : list hs_pkt) (net : list (bool * hs_pkt)) : list (bool * hs_pkt) :=
  fold_left (fun n p => hs_net_ins (x, p) n) outs net.

(* system event: (side, endpoint event) *)
Definition hs_sev : Type := (bool * hs_ev)%type.

Definition hs_apply (s : hs_sys) (sev : hs_sev) : hs_sys :=
  let (x, ev) := sev in
  let '(e', outs, _) := hs_ep_step (hs_side s x) ev in
  if x then mkHsSys (hs_a s) e' (hs_emit x outs (hs_net s))
  else mkHsSys e' (hs_b s) (hs_emit x outs (hs_net s)).

(* enabled events of one side *)
Definition hs_ep_events (x : bool) (e peer : hs_ep) (net : list (bool * hs_pkt)) : list hs_sev :=
  if hs_frozen e then [] else
  if negb (hs_started e) then
    match hs_role_of e with
    | HsSnap => [(x, HsStartSnap (hs_my_init peer))]
    | _ => [(x, HsStart)]
    end
  else
    map (fun fp => (x, HsDeliver (snd fp))) (filter (fun fp => negb (Bool.eqb (fst fp) x)) net)
    ++ (if hs_t1i e then [(x, HsT1Init)] else [])
    ++ (if hs_t1c e then [(x, HsT1Cookie)] else []).

Definition hs_events (s : hs_sys) : list hs_sev :=
  hs_ep_events false (hs_a s) (hs_b s) (hs_net s) ++ hs_ep_events true (hs_b s) (hs_a s) (hs_net s).

Definition hs_succs (s : hs_sys) : list hs_sys := map (hs_apply s) (hs_events s).

Definition hs_is_timer (ev : hs_ev) : bool :=
  match ev with HsT1Init | HsT1Cookie => true | _ => false end.

(* initial states: role assignment x options of A x options of B *)
Definition hs_init_sys (ra rb : hs_role) (ila zca ilb zcb : bool) : hs_sys :=
  mkHsSys (hs_new ra ila zca) (hs_new rb ilb zcb) [].

Definition hs_bools : list bool := [false; true].
Definition hs_role_pairs : list (hs_role * hs_role) :=
  [(HsClient, HsServer); (HsServer, HsClient); (HsClient, HsClient); (HsSnap, HsSnap)].

Definition hs_inits : list hs_sys :=
  flat_map (fun rr =>
  flat_map (fun a1 => flat_map (fun a2 => flat_map (fun b1 => map (fun b2 =>
    hs_init_sys (fst rr) (snd rr) a1 a2 b1 b2) hs_bools) hs_bools) hs_bools) hs_bools) hs_role_pairs.

(* ------------------------------------------------------------------ counter abstraction for the closure *)

(* The exact system has 9 x 9 combinations of the two retry counters; everything except the threshold
   test is independent of them.  The reachable set is computed on states whose counters are collapsed:
   n < maxr |-> 0 ("retries left"), n >= maxr unchanged (maxr: last retry pending; maxr+1: failed),
   stopped timer |-> 0.  The abstract successor relation adds the jump "retries left -> last retry". *)
Definition hs_cn (n : nat) : nat := if Nat.ltb n hs_maxr then 0 else n.

Definition hs_norm_ep (e : hs_ep) : hs_ep :=
  hs_with_t1c (hs_with_t1i e (hs_t1i e) (if hs_t1i e then hs_cn (hs_ni e) else 0))
              (hs_t1c e) (if hs_t1c e then hs_cn (hs_nc e) else 0).

Definition hs_norm (s : hs_sys) : hs_sys := mkHsSys (hs_norm_ep (hs_a s)) (hs_norm_ep (hs_b s)) (hs_net s).

(* the extra abstract transitions: a running timer with retries left expires and this was the expiry
   that uses up the last retry (counter becomes maxr) *)
Definition hs_jump_ep (e : hs_ep) : list (hs_ep * list hs_pkt) :=
  (if negb (hs_frozen e) && hs_t1i e && Nat.ltb (hs_ni e) hs_maxr then
     let '(e', o, _) := hs_t1_init_expire e in [(hs_with_t1i e' (hs_t1i e') hs_maxr, o)] else [])
  ++
  (if negb (hs_frozen e) && hs_t1c e && Nat.ltb (hs_nc e) hs_maxr then
     let '(e', o, _) := hs_t1_cookie_expire e in [(hs_with_t1c e' (hs_t1c e') hs_maxr, o)] else []).

Definition hs_jumps (s : hs_sys) : list hs_sys :=
  map (fun eo => mkHsSys (fst eo) (hs_b s) (hs_emit false (snd eo) (hs_net s))) (hs_jump_ep (hs_a s))
  ++ map (fun eo => mkHsSys (hs_a s) (fst eo) (hs_emit true (snd eo) (hs_net s))) (hs_jump_ep (hs_b s)).

Definition hs_asuccs (a : hs_sys) : list hs_sys := map hs_norm (hs_succs a ++ hs_jumps a).

(* ------------------------------------------------------------------ decidable equality, hashing *)

Definition hs_state_eqb (a b : hs_state) : bool :=
  match a, b with
  | HsClosed, HsClosed | HsCookieWait, HsCookieWait | HsCookieEchoed, HsCookieEchoed
  | HsEstablished, HsEstablished => true
  | _, _ => false
  end.
Definition hs_role_eqb (a b : hs_role) : bool :=
  match a, b with
  | HsClient, HsClient | HsServer, HsServer | HsSnap, HsSnap => true
  | _, _ => false
  end.
Definition hs_res_eqb (a b : hs_res) : bool :=
  match a, b with
  | HsResNone, HsResNone | HsResOk, HsResOk | HsResErrInit, HsResErrInit
  | HsResErrCookie, HsResErrCookie => true
  | _, _ => false
  end.
Definition hs_zca_eqb (a b : hs_zca) : bool :=
  match a, b with
  | HsZcaNone, HsZcaNone | HsZcaDtls, HsZcaDtls | HsZcaOther, HsZcaOther => true
  | _, _ => false
  end.
Definition hs_pkt_eqb (p q : hs_pkt) : bool :=
  match p, q with
  | HsInit a b c d, HsInit a' b' c' d' => Bool.eqb a a' && Bool.eqb b b' && Bool.eqb c c' && hs_zca_eqb d d'
  | HsInitAck a b c d e, HsInitAck a' b' c' d' e' =>
    Bool.eqb a a' && Bool.eqb b b' && Bool.eqb c c' && hs_zca_eqb d d' && Bool.eqb e e'
  | HsCookieEcho a, HsCookieEcho a' => Bool.eqb a a'
  | HsCookieAck, HsCookieAck => true
  | _, _ => false
  end.

Definition hs_ep_eqb (e f : hs_ep) : bool :=
  Bool.eqb (hs_started e) (hs_started f) && hs_role_eqb (hs_role_of e) (hs_role_of f) &&
  Bool.eqb (hs_lil e) (hs_lil f) && Bool.eqb (hs_rzc e) (hs_rzc f) && hs_state_eqb (hs_st e) (hs_st f) &&
  Bool.eqb (hs_pil e) (hs_pil f) && Bool.eqb (hs_pfwd e) (hs_pfwd f) && Bool.eqb (hs_pifwd e) (hs_pifwd f) &&
  Bool.eqb (hs_szc e) (hs_szc f) && Bool.eqb (hs_uil e) (hs_uil f) && Bool.eqb (hs_ufwd e) (hs_ufwd f) &&
  Bool.eqb (hs_uifwd e) (hs_uifwd f) && Bool.eqb (hs_cookie e) (hs_cookie f) &&
  Bool.eqb (hs_sinit e) (hs_sinit f) && Bool.eqb (hs_secho e) (hs_secho f) &&
  Bool.eqb (hs_t1i e) (hs_t1i f) && Nat.eqb (hs_ni e) (hs_ni f) &&
  Bool.eqb (hs_t1c e) (hs_t1c f) && Nat.eqb (hs_nc e) (hs_nc f) &&
  hs_res_eqb (hs_res_of e) (hs_res_of f) && Bool.eqb (hs_frozen e) (hs_frozen f).

Fixpoint hs_net_eqb (l m : list (bool * hs_pkt)) : bool :=
  match l, m with
  | [], [] => true
  | x :: l', y :: m' => Bool.eqb (fst x) (fst y) && hs_pkt_eqb (snd x) (snd y) && hs_net_eqb l' m'
  | _, _ => false
  end.

Definition hs_sys_eqb (s t : hs_sys) : bool :=
  hs_ep_eqb (hs_a s) (hs_a t) && hs_ep_eqb (hs_b s) (hs_b t) && hs_net_eqb (hs_net s) (hs_net t).

(* hash key (collisions would only make the closure check fail, never make it unsound) *)
Fixpoint hs_nbits (k : nat) (n : N) : list bool :=
  match k with
  | O => []
  | S k' => N.odd n :: hs_nbits k' (N.div2 n)
  end.
Definition hs_state_n (s : hs_state) : N :=
  match s with HsClosed => 0 | HsCookieWait => 1 | HsCookieEchoed => 2 | HsEstablished => 3 end%N.
Definition hs_role_n (r : hs_role) : N := match r with HsClient => 0 | HsServer => 1 | HsSnap => 2 end%N.
Definition hs_res_n (r : hs_res) : N :=
  match r with HsResNone => 0 | HsResOk => 1 | HsResErrInit => 2 | HsResErrCookie => 3 end%N.

Definition hs_ep_bits (e : hs_ep) : list bool :=
  [hs_started e; hs_lil e; hs_rzc e; hs_pil e; hs_pfwd e; hs_pifwd e; hs_szc e; hs_uil e; hs_ufwd e;
   hs_uifwd e; hs_cookie e; hs_sinit e; hs_secho e; hs_t1i e; hs_t1c e; hs_frozen e]
  ++ hs_nbits 2 (hs_role_n (hs_role_of e)) ++ hs_nbits 2 (hs_state_n (hs_st e))
  ++ hs_nbits 2 (hs_res_n (hs_res_of e))
  ++ hs_nbits 4 (N.of_nat (hs_ni e)) ++ hs_nbits 4 (N.of_nat (hs_nc e)).

Definition hs_sys_bits (s : hs_sys) : list bool :=
  hs_ep_bits (hs_a s) ++ hs_ep_bits (hs_b s) ++ flat_map (fun x => hs_nbits 9 (hs_np_code x)) (hs_net s).

Definition hs_code (s : hs_sys) : positive :=
  fold_right (fun (b : bool) p => if b then xI p else xO p) xH (hs_sys_bits s).

Definition hs_set : Type := PositiveMap.t hs_sys.

Definition hs_in (m : hs_set) (s : hs_sys) : bool :=
  match PositiveMap.find (hs_code s) m with
  | Some t => hs_sys_eqb t s
  | None => false
  end.

(* breadth-first closure: [frontier] holds the states added in the previous round *)
Definition hs_add_new (acc : hs_set * list hs_sys) (t : hs_sys) : hs_set * list hs_sys :=
  let (m, fr) := acc in
  if hs_in m t then acc else (PositiveMap.add (hs_code t) t m, t :: fr).

Definition hs_round (m : hs_set) (frontier : list hs_sys) : hs_set * list hs_sys :=
  fold_left (fun acc s => fold_left hs_add_new (hs_asuccs s) acc) frontier (m, []).

Fixpoint hs_close (fuel : nat) (m : hs_set) (frontier : list hs_sys) : hs_set * list hs_sys :=
  match fuel with
  | O => (m, frontier)
  | S f =>
    match frontier with
    | [] => (m, [])
    | _ => let (m', fr') := hs_round m frontier in hs_close f m' fr'
    end
  end.

Definition hs_closure_from (inits : list hs_sys) : hs_set * list hs_sys :=
  let (m0, fr0) := fold_left hs_add_new (map hs_norm inits) (PositiveMap.empty hs_sys, []) in
  hs_close 200 m0 fr0.

Definition hs_states (m : hs_set) : list hs_sys := map snd (PositiveMap.elements m).

(* closed under the abstract successor relation *)
Definition hs_closed_check (m : hs_set) : bool :=
  forallb (fun s => forallb (hs_in m) (hs_asuccs s)) (hs_states m).

(* ------------------------------------------------------------------ the property predicates (on states) *)

Definition hs_is_est (e : hs_ep) : bool := hs_state_eqb (hs_st e) HsEstablished.

(* (a) interleaving is on exactly when both enabled it; two established sides agree *)
Definition hs_p_agree_il (s : hs_sys) : bool :=
  (if hs_is_est (hs_a s) then Bool.eqb (hs_uil (hs_a s)) (hs_lil (hs_a s) && hs_lil (hs_b s)) else true) &&
  (if hs_is_est (hs_b s) then Bool.eqb (hs_uil (hs_b s)) (hs_lil (hs_a s) && hs_lil (hs_b s)) else true) &&
  (if hs_is_est (hs_a s) && hs_is_est (hs_b s) then Bool.eqb (hs_uil (hs_a s)) (hs_uil (hs_b s)) else true).

(* (b) the forward-TSN variant follows interleaving: I-FORWARD-TSN iff interleaving, FORWARD-TSN iff not *)
Definition hs_p_fwd_ep (e : hs_ep) : bool :=
  if hs_is_est e then Bool.eqb (hs_uifwd e) (hs_uil e) && Bool.eqb (hs_ufwd e) (negb (hs_uil e)) else true.
Definition hs_p_fwd (s : hs_sys) : bool := hs_p_fwd_ep (hs_a s) && hs_p_fwd_ep (hs_b s).

(* (c) a side sends zero checksums only if the OTHER side accepts them; when established it equals
   the other side's option, whatever its own option is *)
Definition hs_p_zc (s : hs_sys) : bool :=
  implb (hs_szc (hs_a s)) (hs_rzc (hs_b s)) && implb (hs_szc (hs_b s)) (hs_rzc (hs_a s)) &&
  (if hs_is_est (hs_a s) then Bool.eqb (hs_szc (hs_a s)) (hs_rzc (hs_b s)) else true) &&
  (if hs_is_est (hs_b s) then Bool.eqb (hs_szc (hs_b s)) (hs_rzc (hs_a s)) else true).

(* established endpoints are started, have no handshake timer and no stored handshake chunk; nothing is frozen
   unless the connect call already failed *)
Definition hs_p_est_quiet_ep (e : hs_ep) : bool :=
  (if hs_is_est e then hs_started e && negb (hs_t1i e) && negb (hs_t1c e) && negb (hs_sinit e) && negb (hs_secho e) else true) &&
  (if hs_frozen e then negb (hs_res_eqb (hs_res_of e) HsResNone) && negb (hs_res_eqb (hs_res_of e) HsResOk) else true) &&
  (if hs_res_eqb (hs_res_of e) HsResOk then hs_is_est e else true).
Definition hs_p_est_quiet (s : hs_sys) : bool := hs_p_est_quiet_ep (hs_a s) && hs_p_est_quiet_ep (hs_b s).

(* a client that is still waiting has the timer running that retransmits what it waits an answer for *)
Definition hs_p_waiting_ep (e : hs_ep) : bool :=
  if hs_started e && hs_res_eqb (hs_res_of e) HsResNone then
    match hs_st e with
    | HsCookieWait => hs_t1i e && hs_sinit e && negb (hs_t1c e)
    | HsCookieEchoed => hs_t1c e && hs_secho e && negb (hs_t1i e)
    | HsClosed => negb (hs_t1i e) && negb (hs_t1c e) && hs_role_eqb (hs_role_of e) HsServer
    | HsEstablished => false   (* established implies the result was reported *)
    end
  else true.
Definition hs_p_waiting (s : hs_sys) : bool := hs_p_waiting_ep (hs_a s) && hs_p_waiting_ep (hs_b s).

(* every packet in the network is the canonical packet of its sender (contents are a function of the
   sender's fixed options), and an echoed cookie is always the receiver's *)
Definition hs_p_net_canon (s : hs_sys) : bool :=
  forallb (fun fp =>
    let e := hs_side s (fst fp) in
    match snd fp with
    | HsInit _ _ _ _ => hs_pkt_eqb (snd fp) (hs_my_init e)
    | HsInitAck _ _ _ _ _ => hs_pkt_eqb (snd fp) (hs_my_init_ack e)
    | HsCookieEcho m => m
    | HsCookieAck => true
    end) (hs_net s).

Definition hs_failed_ep (e : hs_ep) : bool :=
  hs_frozen e || hs_res_eqb (hs_res_of e) HsResErrInit || hs_res_eqb (hs_res_of e) HsResErrCookie.
Definition hs_good (s : hs_sys) : bool := negb (hs_failed_ep (hs_a s)) && negb (hs_failed_ep (hs_b s)).
Definition hs_goal (s : hs_sys) : bool :=
  hs_is_est (hs_a s) && hs_is_est (hs_b s) &&
  hs_res_eqb (hs_res_of (hs_a s)) HsResOk && hs_res_eqb (hs_res_of (hs_b s)) HsResOk.

(* ------------------------------------------------------------------ progress: a delivery-only schedule *)

(* first enabled non-timer event that changes the state *)
Definition hs_pick (s : hs_sys) : option hs_sev :=
  find (fun sev => negb (hs_is_timer (snd sev)) && negb (hs_sys_eqb (hs_apply s sev) s)) (hs_events s).

Fixpoint hs_drive (fuel : nat) (s : hs_sys) : list hs_sev :=
  match fuel with
  | O => []
  | S f =>
    match hs_pick s with
    | Some sev => sev :: hs_drive f (hs_apply s sev)
    | None => []
    end
  end.

Definition hs_sev_eqb (x y : hs_sev) : bool :=
  Bool.eqb (fst x) (fst y) &&
  match snd x, snd y with
  | HsStart, HsStart => true
  | HsStartSnap p, HsStartSnap q => hs_pkt_eqb p q
  | HsDeliver p, HsDeliver q => hs_pkt_eqb p q
  | HsT1Init, HsT1Init => true
  | HsT1Cookie, HsT1Cookie => true
  | _, _ => false
  end.

(* run a schedule; every event must be enabled where it is taken *)
Fixpoint hs_run (s : hs_sys) (evs : list hs_sev) : option hs_sys :=
  match evs with
  | [] => Some s
  | sev :: r => if existsb (hs_sev_eqb sev) (hs_events s) then hs_run (hs_apply s sev) r else None
  end.

Definition hs_no_timer_evs (evs : list hs_sev) : bool := forallb (fun sev => negb (hs_is_timer (snd sev))) evs.

Definition hs_progress_check (s : hs_sys) : bool :=
  if hs_good s then
    let evs := hs_drive 24 s in
    hs_no_timer_evs evs &&
    match hs_run s evs with Some t => hs_goal t | None => false end
  else true.

(* "fresh" progress: even if every packet now in flight is lost, the retransmissions suffice as long as the
   running timers have a retry left: the T1 timer of each waiting side expires once, then deliveries *)
Definition hs_retries_left_ep (e : hs_ep) : bool :=
  (if hs_t1i e then Nat.ltb (hs_ni e) hs_maxr else true) && (if hs_t1c e then Nat.ltb (hs_nc e) hs_maxr else true).

(* the T1 timer a side has running (at most one in reachable states), expiring once *)
Definition hs_fire_ep (e : hs_ep) : option hs_ev :=
  if hs_t1i e then Some HsT1Init else if hs_t1c e then Some HsT1Cookie else None.

Definition hs_fire_side (s : hs_sys) (x : bool) : hs_sys :=
  match hs_fire_ep (hs_side s x) with
  | Some ev => hs_apply s (x, ev)
  | None => s
  end.

Definition hs_clear_net (s : hs_sys) : hs_sys := mkHsSys (hs_a s) (hs_b s) [].

(* every packet in flight lost, then one expiry of the running T1 timer on each side *)
Definition hs_refire (s : hs_sys) : hs_sys := hs_fire_side (hs_fire_side (hs_clear_net s) false) true.

Definition hs_fresh_check (s : hs_sys) : bool :=
  if hs_good s && hs_retries_left_ep (hs_a s) && hs_retries_left_ep (hs_b s) && negb (hs_goal s) then
    let s1 := hs_refire s in
    let evs := hs_drive 24 s1 in
    hs_no_timer_evs evs &&
    match hs_run s1 evs with Some t => hs_goal t | None => false end
  else true.

(* ------------------------------------------------------------------ used by the correspondence check *)

(* all properties of one state, as one number (bit i = predicate i holds) *)
Definition hs_state_ok (s : hs_sys) : bool :=
  hs_p_agree_il s && hs_p_fwd s && hs_p_zc s && hs_p_est_quiet s && hs_p_waiting s && hs_p_net_canon s.

Definition hs_reach_set : hs_set := fst (hs_closure_from hs_inits).
(* as a function, so that the extracted program computes it only when the handshake comparator asks *)
Definition hs_reach_set_f (u : unit) : hs_set := fst (hs_closure_from hs_inits).
