(* Congestion-window growth law of the sender model (C10): a SACK raises cwnd only when the cumulative ack
   point advances, by at most cwnd (slow start) resp. max(MTU, cwndCAStep) (congestion avoidance); the only
   other upward move is the RFC 4960 7.2.3 floor 4*MTU on entry into fast recovery. *)
From Coq Require Import ZArith Bool List Lia.
From Coq Require Import ZifyBool.
From Sctp Require Import Gen SnaProofs Sender SenderProofs.
Import ListNotations.
Open Scope Z_scope.
Ltac Zify.zify_post_hook ::= Z.div_mod_to_equations.

Lemma set_cwnd_le s c : set_cwnd s c <= Z.max c (st_mincwnd s).
Proof. unfold set_cwnd. destruct (c <? st_mincwnd s) eqn:E; lia. Qed.

(* miss-indication loop: the only change of cwnd is the cut max(cwnd/2, 4*MTU), never above a bound B that
   dominates the old value, the configured minimum and 4*MTU *)
Lemma fr_loop_ceil : forall fuel s tsn maxTSN htna s' B,
  fr_loop fuel s tsn maxTSN htna = Some s' -> 0 < st_mtu s < 1073741824 ->
  st_mincwnd s <= B -> 4 * st_mtu s <= B -> 0 <= st_cwnd s <= B -> 0 <= st_cwnd s' <= B.
Proof.
  induction fuel as [|f IH]; intros s tsn maxTSN htna s' B H Hm Hmin H4 Hc; [discriminate|]. cbn [fr_loop] in H.
  destruct (negb (sna32LT tsn maxTSN)); [inversion H; subst; assumption|].
  destruct (infl_get s tsn) as [c|]; [|discriminate].
  match type of H with fr_loop f ?X _ _ _ = _ => set (s1 := X) in H end.
  assert (E4 : wrap32 (4 * st_mtu s) = 4 * st_mtu s) by (unfold wrap32; rewrite Z.mod_small; lia).
  pose proof (set_cwnd_le s (Z.max (st_cwnd s / 2) (wrap32 (4 * st_mtu s)))) as Hle.
  pose proof (set_cwnd_ge s (Z.max (st_cwnd s / 2) (wrap32 (4 * st_mtu s)))) as [_ Hge].
  rewrite E4 in Hle, Hge.
  assert (Hhalf : st_cwnd s / 2 <= st_cwnd s) by (apply Z.div_le_upper_bound; lia).
  apply (IH s1 _ _ _ s' B H).
  - unfold s1. destruct (negb (sc_acked c) && negb (sc_aband c) && (sc_miss c <? 3))%bool; [|assumption].
    destruct ((sc_miss c + 1 =? 3) && negb (st_infr s))%bool; cbn [st_mtu]; assumption.
  - unfold s1. destruct (negb (sc_acked c) && negb (sc_aband c) && (sc_miss c <? 3))%bool; [|assumption].
    destruct ((sc_miss c + 1 =? 3) && negb (st_infr s))%bool; cbn [st_mincwnd]; assumption.
  - unfold s1. destruct (negb (sc_acked c) && negb (sc_aband c) && (sc_miss c <? 3))%bool; [|assumption].
    destruct ((sc_miss c + 1 =? 3) && negb (st_infr s))%bool; cbn [st_mtu]; assumption.
  - unfold s1. destruct (negb (sc_acked c) && negb (sc_aband c) && (sc_miss c <? 3))%bool; [|assumption].
    destruct ((sc_miss c + 1 =? 3) && negb (st_infr s))%bool; cbn [st_cwnd]; [|assumption].
    rewrite E4. lia.
Qed.

Lemma fast_rtx_ceil s cum gaps htna adv s' B :
  fast_rtx s cum gaps htna adv = Some s' -> 0 < st_mtu s < 1073741824 ->
  st_mincwnd s <= B -> 4 * st_mtu s <= B -> 0 <= st_cwnd s <= B -> 0 <= st_cwnd s' <= B.
Proof.
  unfold fast_rtx. intros H Hm Hmin H4 Hc.
  destruct (negb (st_infr s) || st_infr s && adv)%bool.
  - destruct (fr_loop _ _ _ _ _) as [s6|] eqn:E; [|discriminate].
    apply (fr_loop_ceil _ _ _ _ _ _ B) in E; try assumption.
    destruct (st_infr s6 && adv)%bool; inversion H; subst; cbn [st_cwnd]; assumption.
  - destruct (st_infr s && adv)%bool; inversion H; subst; cbn [st_cwnd]; assumption.
Qed.

(* onCumulativeTSNAckPointAdvanced *)
Lemma cwnd_grow_ceil s total :
  0 <= st_cwnd s < 2147483648 -> 0 <= st_castep s < 2147483648 -> 0 < st_mtu s < 1073741824 -> floor_ok s ->
  (st_cwnd s <= st_ssthresh s -> st_cwnd (cwnd_grow s total) <= 2 * st_cwnd s) /\
  (st_ssthresh s < st_cwnd s -> st_cwnd (cwnd_grow s total) <= st_cwnd s + Z.max (st_mtu s) (st_castep s)) /\
  ((st_infr s = true /\ st_cwnd s <= st_ssthresh s) \/ st_pendn s <= 0 -> st_cwnd (cwnd_grow s total) = st_cwnd s).
Proof.
  intros Hc Hs Hm [F1 F2]. unfold cwnd_grow.
  destruct (st_cwnd s <=? st_ssthresh s) eqn:Ess.
  - destruct (negb (st_infr s) && (0 <? st_pendn s))%bool eqn:Eg; cbn [st_cwnd].
    + pose proof (set_cwnd_le s (wrap32 (st_cwnd s + Z.min (wrap32 total) (st_cwnd s)))) as G.
      assert (0 <= Z.min (wrap32 total) (st_cwnd s) <= st_cwnd s) by (clear - Hc; assert (0 <= wrap32 total) by (unfold wrap32; apply Z.mod_pos_bound; lia); lia).
      assert (E : wrap32 (st_cwnd s + Z.min (wrap32 total) (st_cwnd s)) = st_cwnd s + Z.min (wrap32 total) (st_cwnd s))
        by (unfold wrap32 at 1; rewrite Z.mod_small; lia).
      rewrite E in *.
      split; [intros _; lia|]. split; [intros; lia|]. intros [[I _]|P]; [rewrite I in Eg; discriminate|].
      destruct (0 <? st_pendn s) eqn:Ep; [lia|]. rewrite andb_false_r in Eg. discriminate.
    + split; [intros; lia|]. split; [intros; lia|]. intros _. reflexivity.
  - destruct ((wrap32 (st_pba s + wrap32 total) >=? st_cwnd s) && (0 <? st_pendn s))%bool eqn:Eg; cbn [st_cwnd].
    + pose proof (set_cwnd_le s (wrap32 (st_cwnd s + Z.max (st_mtu s) (st_castep s)))) as G.
      assert (E : wrap32 (st_cwnd s + Z.max (st_mtu s) (st_castep s)) = st_cwnd s + Z.max (st_mtu s) (st_castep s))
        by (unfold wrap32; rewrite Z.mod_small; lia).
      rewrite E in *.
      split; [intros; lia|]. split; [intros _; lia|]. intros [[_ I]|P]; [lia|].
      destruct (0 <? st_pendn s) eqn:Ep; [lia|]. rewrite andb_false_r in Eg. discriminate.
    + split; [intros; lia|]. split; [intros; lia|]. intros _. reflexivity.
Qed.

Lemma mark_gaps_ss : forall gaps s cum acc htna s' acc' h',
  mark_gaps gaps s cum acc htna = Some (s', acc', h') ->
  st_ssthresh s' = st_ssthresh s /\ st_pendn s' = st_pendn s.
Proof.
  assert (One : forall s tsn acc htna s' acc' h', mark_one s tsn acc htna = Some (s', acc', h') ->
            st_ssthresh s' = st_ssthresh s /\ st_pendn s' = st_pendn s).
  { intros s tsn acc htna s' acc' h'. unfold mark_one. destruct (infl_get s tsn) as [c|]; [|discriminate].
    destruct (sc_acked c); intros H; inversion H; subst; cbn; split; reflexivity. }
  assert (Rng : forall n s cum i acc htna s' acc' h', mark_range n s cum i acc htna = Some (s', acc', h') ->
            st_ssthresh s' = st_ssthresh s /\ st_pendn s' = st_pendn s).
  { induction n as [|n IH]; intros s cum i acc htna s' acc' h' H; cbn [mark_range] in H.
    - inversion H; subst. split; reflexivity.
    - destruct (mark_one s (wrap32 (cum + i)) acc htna) as [[[s1 a1] h1]|] eqn:E; [|discriminate].
      apply One in E. apply IH in H. destruct E as (E1 & E2), H as (H1 & H2). split; congruence. }
  induction gaps as [|[gs ge] r IH]; intros s cum acc htna s' acc' h' H; cbn [mark_gaps] in H.
  - inversion H; subst. split; reflexivity.
  - destruct (mark_range _ s cum gs acc htna) as [[[s1 a1] h1]|] eqn:E; [|discriminate].
    apply Rng in E. apply IH in H. destruct E as (E1 & E2), H as (H1 & H2). split; congruence.
Qed.

(* the law through a whole SACK *)
Lemma sack_step_growth s cum arwnd gaps s' :
  sack_step s cum arwnd gaps = SOk s' ->
  0 <= st_cwnd s < 2147483648 -> 0 <= st_castep s < 2147483648 -> 0 < st_mtu s < 1073741824 -> floor_ok s ->
  (sna32LT (st_cum s) cum = false -> st_cwnd s' <= Z.max (st_cwnd s) (4 * st_mtu s)) /\
  (st_pendn s <= 0 -> st_cwnd s' <= Z.max (st_cwnd s) (4 * st_mtu s)) /\
  (st_cwnd s <= st_ssthresh s -> st_cwnd s' <= Z.max (2 * st_cwnd s) (4 * st_mtu s)) /\
  (st_ssthresh s < st_cwnd s -> st_cwnd s' <= Z.max (st_cwnd s + Z.max (st_mtu s) (st_castep s)) (4 * st_mtu s)).
Proof.
  unfold sack_step. intros H Hc Hs Hm Hf.
  assert (Triv : forall x, x = s -> (sna32LT (st_cum s) cum = false -> st_cwnd x <= Z.max (st_cwnd s) (4 * st_mtu s)) /\
    (st_pendn s <= 0 -> st_cwnd x <= Z.max (st_cwnd s) (4 * st_mtu s)) /\
    (st_cwnd s <= st_ssthresh s -> st_cwnd x <= Z.max (2 * st_cwnd s) (4 * st_mtu s)) /\
    (st_ssthresh s < st_cwnd s -> st_cwnd x <= Z.max (st_cwnd s + Z.max (st_mtu s) (st_castep s)) (4 * st_mtu s))).
  { intros x ->. repeat split; intros; lia. }
  destruct (negb (state_accepts_sack (st_state s))); [inversion H; subst; apply Triv; reflexivity|].
  destruct (sna32GT (st_cum s) cum); [inversion H; subst; apply Triv; reflexivity|]. clear Triv.
  destruct (negb (sack_valid s cum gaps)); [discriminate|].
  destruct (pop_acked _ s _ cum []) as [[s1 acc1]|] eqn:Ep; [|discriminate].
  destruct (mark_gaps gaps s1 cum acc1 cum) as [[[s2 acc2] htna]|] eqn:Em; [|discriminate].
  apply pop_acked_cwnd in Ep. destruct Ep as (P1 & P2 & P3 & P4 & P5 & P6).
  pose proof Em as Em'. apply mark_gaps_cwnd in Em. destruct Em as (M1 & M2 & M3 & M4).
  assert (M5 : st_ssthresh s2 = st_ssthresh s1 /\ st_pendn s2 = st_pendn s1).
  { apply mark_gaps_ss in Em'. assumption. }
  destruct M5 as [M5 M6].
  match type of H with match fast_rtx ?X _ _ _ _ with _ => _ end = _ => set (s4 := X) in H end.
  destruct (fast_rtx s4 cum gaps htna (sna32LT (st_cum s) cum)) as [s5|] eqn:Ef; [|discriminate].
  inversion H; subst s'. clear H.
  destruct Hf as [F1 F2].
  assert (K : st_mtu s4 = st_mtu s /\ st_mincwnd s4 = st_mincwnd s /\ 0 <= st_cwnd s4 /\
    (sna32LT (st_cum s) cum = false -> st_cwnd s4 = st_cwnd s) /\
    (st_pendn s <= 0 -> st_cwnd s4 = st_cwnd s) /\
    (st_cwnd s <= st_ssthresh s -> st_cwnd s4 <= 2 * st_cwnd s) /\
    (st_ssthresh s < st_cwnd s -> st_cwnd s4 <= st_cwnd s + Z.max (st_mtu s) (st_castep s))).
  { unfold s4; cbn [st_cwnd st_mtu st_mincwnd]. destruct (sna32LT (st_cum s) cum).
    - match goal with |- context[cwnd_grow ?X ?T] => remember X as x eqn:Ex; remember T as tt end.
      assert (Fx : floor_ok x /\ 0 <= st_cwnd x < 2147483648 /\ 0 <= st_castep x < 2147483648 /\ 0 < st_mtu x < 1073741824 /\
                   st_cwnd x = st_cwnd s /\ st_ssthresh x = st_ssthresh s /\ st_pendn x = st_pendn s /\ st_mtu x = st_mtu s /\
                   st_castep x = st_castep s /\ st_mincwnd x = st_mincwnd s).
      { subst x. unfold floor_ok; cbn [st_cwnd st_mtu st_mincwnd st_castep st_ssthresh st_pendn]. repeat split; lia. }
      destruct Fx as (Fx & Hcx & Hsx & Hmx & X1 & X2 & X3 & X4 & X5 & X6).
      destruct (cwnd_grow_floor x tt Hcx Hsx Hmx Fx) as (_ & G2 & G3 & G4).
      destruct (cwnd_grow_ceil x tt Hcx Hsx Hmx Fx) as (C1 & C2 & C3).
      rewrite X1, X2, X3, X4, X5 in *.
      split; [congruence|]. split; [congruence|]. split; [lia|]. split; [intros; discriminate|].
      split; [intros P; rewrite C3 by (right; assumption); reflexivity|]. split; assumption.
    - rewrite M1, M2, M3, P1, P2, P3. repeat split; intros; lia. }
  destruct K as (K1 & K2 & K0 & K3 & K4 & K5 & K6).
  assert (Use : forall B, st_mincwnd s <= B -> 4 * st_mtu s <= B -> st_cwnd s4 <= B -> st_cwnd s5 <= B).
  { intros B B1 B2 B3. eapply (fast_rtx_ceil s4 _ _ _ _ s5 B Ef); rewrite ?K1, ?K2; try assumption. lia. }
  split; [intros A; apply Use; try lia; rewrite K3 by assumption; lia|].
  split; [intros A; apply Use; try lia; rewrite K4 by assumption; lia|].
  split; [intros A; apply Use; try lia; specialize (K5 A); lia|].
  intros A; apply Use; try lia; specialize (K6 A); lia.
Qed.
