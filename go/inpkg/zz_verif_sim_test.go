// Verification harness (overlay; not part of pion/sctp): deterministic simulation of two real
// associations over an in-memory transport controlled by the harness, inside a testing/synctest
// bubble (virtual time).  Every packet a side writes is parked in a per-direction list; the
// harness decides for each one whether it is delivered, dropped, duplicated or delayed, and when
// virtual time advances.  Monitors evaluate the property predicates on the wire history and on
// white-box snapshots taken at quiescent points (synctest.Wait).
package sctp

import (
	"context"
	"errors"
	"fmt"
	"io"
	"math/rand"
	"net"
	"os"
	"sort"
	"strings"
	"sync"
	"testing"
	"testing/synctest"
	"time"

	"github.com/pion/logging"
)

// ---------------------------------------------------------------- transport

type simAddr struct{ s string }

func (a simAddr) Network() string { return "sim" }
func (a simAddr) String() string  { return a.s }

var errSimTimeout = &simTimeoutErr{}

type simTimeoutErr struct{}

func (*simTimeoutErr) Error() string   { return "sim: i/o timeout" }
func (*simTimeoutErr) Timeout() bool   { return true }
func (*simTimeoutErr) Temporary() bool { return true }

type simConn struct {
	sim               *sim
	side              int // 0 = A, 1 = B: the association that owns this conn
	in                chan []byte
	closed            chan struct{}
	closeOnce         sync.Once
	mu                sync.Mutex
	rdl               chan struct{} // closed when a read deadline in the past was set
	failWrite         bool
	nWritesAfterClose int
}

func (c *simConn) Read(p []byte) (int, error) {
	c.mu.Lock()
	rdl := c.rdl
	c.mu.Unlock()
	select {
	case <-c.closed:
		return 0, io.EOF
	default:
	}
	select {
	case b := <-c.in:
		n := copy(p, b)
		return n, nil
	case <-c.closed:
		return 0, io.EOF
	case <-rdl:
		return 0, errSimTimeout
	}
}

func (c *simConn) Write(p []byte) (int, error) {
	select {
	case <-c.closed:
		c.mu.Lock()
		c.nWritesAfterClose++
		c.mu.Unlock()
		return 0, io.ErrClosedPipe
	default:
	}
	c.mu.Lock()
	fw := c.failWrite
	c.mu.Unlock()
	if fw {
		return 0, errors.New("sim: write failure")
	}
	b := make([]byte, len(p))
	copy(b, p)
	c.sim.emit(c.side, b)
	return len(p), nil
}

func (c *simConn) Close() error {
	c.closeOnce.Do(func() { close(c.closed) })
	return nil
}
func (c *simConn) LocalAddr() net.Addr  { return simAddr{fmt.Sprintf("side%d", c.side)} }
func (c *simConn) RemoteAddr() net.Addr { return simAddr{fmt.Sprintf("side%d", 1-c.side)} }
func (c *simConn) SetDeadline(t time.Time) error {
	_ = c.SetReadDeadline(t)
	return nil
}
func (c *simConn) SetReadDeadline(t time.Time) error {
	c.mu.Lock()
	defer c.mu.Unlock()
	if !t.IsZero() && !t.After(time.Now()) {
		select {
		case <-c.rdl:
		default:
			close(c.rdl)
		}
	} else {
		select {
		case <-c.rdl:
			c.rdl = make(chan struct{})
		default:
		}
	}
	return nil
}
func (c *simConn) SetWriteDeadline(time.Time) error { return nil }

// ---------------------------------------------------------------- simulation state

type simPkt struct {
	id   int
	from int
	raw  []byte
	at   time.Duration // virtual emission time since start
	pkt  *packet       // decoded with the package's own decoder (nil if undecodable)
	cwnd uint32        // sender's congestion window when the packet was written
}

type simMsg struct {
	sid       uint16
	ppi       PayloadProtocolIdentifier
	idx       int // per (side, stream) index
	n         int
	unordered bool
}

type simOpts struct {
	seed         int64
	tsnA, tsnB   uint32
	setTSN       bool
	mtu          uint32
	recvBuf      uint32
	interleaveA  int // -1 default, 0 off, 1 on
	interleaveB  int
	zeroA, zeroB bool
	blockWrite   bool
	rtoMax       float64
	ackMode      int
	maxMsg       uint32
	schedRR      bool
}

// simEvent describes one harness event to observers (step-commuting records).
type simEvent struct {
	kind string // "deliver", "write", "advance"
	side int    // deliver: receiving side; write: writing side
	pkt  *simPkt
	sid  uint16
	n    int
	err  error
	d    time.Duration
}

type simObserver interface {
	before(s *sim, ev *simEvent)
	after(s *sim, ev *simEvent)
}

type sim struct {
	obs    []simObserver
	t      *testing.T
	opts   simOpts
	start  time.Time
	mu     sync.Mutex
	fresh  []*simPkt    // emitted since last settle
	flight [2][]*simPkt // parked packets, by sender side
	nextID int
	conn   [2]*simConn
	assoc  [2]*Association
	hsErr  [2]error
	hsDone [2]chan struct{}
	wire   []*simPkt // everything ever emitted, in order
	events []string  // replayable event log
	fails  []string
	// per side, per stream: written and read message histories
	sent    [2]map[uint16][]simMsg
	recvd   [2]map[uint16][]simMsg
	streams [2]map[uint16]*Stream
	// wire-level ghost state for the monitors
	deliveredTSN  [2]map[uint32]bool // TSNs of DATA/I-DATA chunks delivered to side x
	fwdTo         [2][]uint32        // new cumulative TSNs of FORWARD-TSNs delivered to side x
	sackCum       [2]uint32          // last cumulative ack emitted by side x
	sackSeen      [2]bool
	firstTx       [2]map[uint32]int // sender side: TSN -> payload length of first transmissions seen on the wire
	txCount       [2]map[uint32]int // transmissions per TSN
	ackedByPeer   [2]map[uint32]bool
	probeOversize [2]bool
	loss          [2]lossSnap
	lastARwnd     [2]uint32 // last a_rwnd delivered TO side x (in a SACK), valid if haveARwnd
	haveARwnd     [2]bool
	peerInitRwnd  [2]uint32
	label         string
}

func (s *sim) now() time.Duration { return time.Since(s.start) }

func (s *sim) emit(side int, raw []byte) {
	s.mu.Lock()
	defer s.mu.Unlock()
	p := &simPkt{id: -1, from: side, raw: raw, at: time.Since(s.start)}
	if a := s.assoc[side]; a != nil {
		p.cwnd = a.CWND()
	}
	s.fresh = append(s.fresh, p)
}

func (s *sim) fail(prop, what string) {
	line := fmt.Sprintf("SIMFAIL prop=%s %s | scenario=%s seed=%d t=%v", prop, what, s.label, s.opts.seed, s.now())
	s.fails = append(s.fails, line)
}

func simConfig(o simOpts, side int, c net.Conn) Config {
	cfg := Config{
		NetConn:              c,
		LoggerFactory:        simLoggerFactory(),
		Name:                 fmt.Sprintf("side%d", side),
		MTU:                  o.mtu,
		MaxReceiveBufferSize: o.recvBuf,
		BlockWrite:           o.blockWrite,
		RTOMax:               o.rtoMax,
		MaxMessageSize:       o.maxMsg,
	}
	il, zc := o.interleaveA, o.zeroA
	if side == 1 {
		il, zc = o.interleaveB, o.zeroB
	}
	cfg.EnableZeroChecksum = zc
	if il >= 0 {
		cfg.enableInterleaving = il == 1
		cfg.enableInterleavingSet = true
	}
	if o.schedRR {
		cfg.interleaving = &interleavingSettings{}
		setRoundRobinStreamScheduler(cfg.interleaving)
	}
	return cfg
}

func simLoggerFactory() logging.LoggerFactory {
	lf := logging.NewDefaultLoggerFactory()
	lf.DefaultLogLevel = logging.LogLevelDisabled
	if os.Getenv("VERIF_SIMLOG") != "" {
		lf.DefaultLogLevel = logging.LogLevelTrace
	}
	return lf
}

// newSim creates both associations (side 0 = client unless bothClients) and starts their handshake.
// Must be called inside a synctest bubble.
var simObserverFactory func() []simObserver // set by tests that record step-commuting traces

func newSim(t *testing.T, o simOpts, label string) *sim {
	s := &sim{t: t, opts: o, start: time.Now(), label: label}
	if simObserverFactory != nil {
		s.obs = simObserverFactory()
	}
	for i := 0; i < 2; i++ {
		s.conn[i] = &simConn{sim: s, side: i, in: make(chan []byte, 4096), closed: make(chan struct{}), rdl: make(chan struct{})}
		s.sent[i] = map[uint16][]simMsg{}
		s.recvd[i] = map[uint16][]simMsg{}
		s.streams[i] = map[uint16]*Stream{}
		s.deliveredTSN[i] = map[uint32]bool{}
		s.firstTx[i] = map[uint32]int{}
		s.txCount[i] = map[uint32]int{}
		s.ackedByPeer[i] = map[uint32]bool{}
		s.hsDone[i] = make(chan struct{})
	}
	return s
}

func (s *sim) mkAssoc(side int, client bool) *Association {
	cfgIn := simConfig(s.opts, side, s.conn[side])
	var cfg *Config
	var err error
	if client {
		cfg, err = buildClientConfig(cfgIn)
	} else {
		cfg, err = buildServerConfig(cfgIn)
	}
	if err != nil {
		s.t.Fatalf("config: %v", err)
	}
	tsn := globalMathRandomGenerator.Uint32()
	if s.opts.setTSN {
		tsn = s.opts.tsnA
		if side == 1 {
			tsn = s.opts.tsnB
		}
	}
	a := createAssociationFromConfigWithTsn(cfg, tsn)
	a.ackMode = s.opts.ackMode
	s.assoc[side] = a
	return a
}

// startHandshake starts side 0 as client and side 1 as server (or both as clients).
func (s *sim) startHandshake(bothClients bool) {
	a0 := s.mkAssoc(0, true)
	a1 := s.mkAssoc(1, bothClients)
	wait := func(side int, a *Association) {
		defer close(s.hsDone[side])
		select {
		case err := <-a.handshakeCompletedCh:
			s.hsErr[side] = err
			if err != nil {
				// mirrors ClientWithOptions / ServerWithOptions (fix: a failed handshake closes the association)
				_ = a.Close()
			}
		case <-a.readLoopCloseCh:
			s.hsErr[side] = ErrAssociationClosedBeforeConn
		}
	}
	a0.initClient()
	go wait(0, a0)
	if bothClients {
		a1.initClient()
	} else {
		a1.initServer()
	}
	go wait(1, a1)
}

func (s *sim) hsFinished(side int) bool {
	select {
	case <-s.hsDone[side]:
		return true
	default:
		return false
	}
}

// settle waits for quiescence and moves freshly emitted packets to the in-flight lists.
func (s *sim) settle() {
	synctest.Wait()
	s.mu.Lock()
	fresh := s.fresh
	s.fresh = nil
	s.mu.Unlock()
	// Packets written by the two sides at the same virtual instant arrive here in scheduler order; make the
	// order canonical (time, then side; each side's own order is kept) before numbering them, so that a
	// scenario replays identically.
	sort.SliceStable(fresh, func(i, j int) bool {
		if fresh[i].at != fresh[j].at {
			return fresh[i].at < fresh[j].at
		}
		return fresh[i].from < fresh[j].from
	})
	for _, p := range fresh {
		p.id = s.nextID
		s.nextID++
	}
	for _, p := range fresh {
		pk := &packet{}
		if err := pk.unmarshal(false, p.raw); err == nil {
			p.pkt = pk
		}
		s.wire = append(s.wire, p)
		s.flight[p.from] = append(s.flight[p.from], p)
		s.onEmit(p)
	}
	if len(fresh) > 0 {
		// emission may trigger nothing further, but keep the invariant "settled" strict
		synctest.Wait()
	}
}

func (s *sim) logEvent(f string, args ...interface{}) {
	s.events = append(s.events, fmt.Sprintf("%v ", s.now())+fmt.Sprintf(f, args...))
}

func (s *sim) deliver(from, idx int, keep bool) {
	if idx >= len(s.flight[from]) {
		return
	}
	p := s.flight[from][idx]
	if !keep {
		s.flight[from] = append(s.flight[from][:idx:idx], s.flight[from][idx+1:]...)
	}
	to := 1 - from
	s.logEvent("deliver from=%d id=%d keep=%v %s", from, p.id, keep, pktSummary(p))
	s.onDeliver(p, to)
	ev := &simEvent{kind: "deliver", side: to, pkt: p}
	for _, o := range s.obs {
		o.before(s, ev)
	}
	select {
	case <-s.conn[to].closed:
	default:
		select {
		case s.conn[to].in <- p.raw:
		default:
			s.t.Fatalf("sim inbox overflow")
		}
	}
	s.settle()
	for _, o := range s.obs {
		o.after(s, ev)
	}
}

func (s *sim) drop(from, idx int) {
	if idx >= len(s.flight[from]) {
		return
	}
	p := s.flight[from][idx]
	s.flight[from] = append(s.flight[from][:idx:idx], s.flight[from][idx+1:]...)
	s.logEvent("drop from=%d id=%d %s", from, p.id, pktSummary(p))
}

func (s *sim) inject(to int, raw []byte, what string) {
	s.logEvent("inject to=%d %s len=%d", to, what, len(raw))
	p := &simPkt{id: -1, from: 1 - to, raw: raw, at: s.now()}
	pk := &packet{}
	if err := pk.unmarshal(false, raw); err == nil {
		p.pkt = pk
	}
	ev := &simEvent{kind: "deliver", side: to, pkt: p}
	for _, o := range s.obs {
		o.before(s, ev)
	}
	select {
	case s.conn[to].in <- raw:
	default:
	}
	s.settle()
	for _, o := range s.obs {
		o.after(s, ev)
	}
}

func (s *sim) advance(d time.Duration) {
	s.logEvent("advance %v", d)
	ev := &simEvent{kind: "advance", d: d}
	for _, o := range s.obs {
		o.before(s, ev)
	}
	time.Sleep(d)
	s.settle()
	for _, o := range s.obs {
		o.after(s, ev)
	}
}

// deliverAllInOrder delivers parked packets (both directions, oldest first) until none is left,
// advancing time by `step` whenever the network is empty, for at most `limit` of virtual time.
// `done` is evaluated at every quiescent point.
func (s *sim) runFaultFree(limit, step time.Duration, done func() bool) bool {
	deadline := s.now() + limit
	for s.now() < deadline {
		progressed := false
		for len(s.flight[0]) > 0 || len(s.flight[1]) > 0 {
			// oldest first across both directions
			from := 0
			if len(s.flight[0]) == 0 || (len(s.flight[1]) > 0 && s.flight[1][0].id < s.flight[0][0].id) {
				from = 1
			}
			s.deliver(from, 0, false)
			progressed = true
			s.readAll()
		}
		s.readAll()
		if done() {
			return true
		}
		if !progressed || true {
			s.advance(step)
		}
	}
	return done()
}

func pktSummary(p *simPkt) string {
	if p.pkt == nil {
		return "undecodable"
	}
	var sb strings.Builder
	for _, c := range p.pkt.chunks {
		switch v := c.(type) {
		case *chunkPayloadData:
			fmt.Fprintf(&sb, "DATA(tsn=%d,si=%d,ssn=%d,len=%d,B%vE%vU%v) ", v.tsn, v.streamIdentifier, v.streamSequenceNumber, len(v.userData), b2i(v.beginningFragment), b2i(v.endingFragment), b2i(v.unordered))
		case *chunkSelectiveAck:
			fmt.Fprintf(&sb, "SACK(cum=%d,arwnd=%d,gaps=%v,dups=%v) ", v.cumulativeTSNAck, v.advertisedReceiverWindowCredit, v.gapAckBlocks, v.duplicateTSN)
		case *chunkForwardTSN:
			fmt.Fprintf(&sb, "FWD(cum=%d,n=%d) ", v.newCumulativeTSN, len(v.streams))
		case *chunkIForwardTSN:
			fmt.Fprintf(&sb, "IFWD(cum=%d,n=%d) ", v.newCumulativeTSN, len(v.streams))
		default:
			fmt.Fprintf(&sb, "%T ", c)
		}
	}
	return sb.String()
}

// ---------------------------------------------------------------- application operations

func simPayload(side int, sid uint16, idx int, n int) []byte {
	b := make([]byte, n)
	x := uint32(side+1)*2654435761 ^ uint32(sid)*40503 ^ uint32(idx+1)*2246822519
	for i := range b {
		x ^= x << 13
		x ^= x >> 17
		x ^= x << 5
		b[i] = byte(x)
	}
	return b
}

func (s *sim) openStream(side int, sid uint16) *Stream {
	if st, ok := s.streams[side][sid]; ok {
		return st
	}
	st, err := s.assoc[side].OpenStream(sid, PayloadTypeWebRTCBinary)
	if err != nil {
		return nil
	}
	s.streams[side][sid] = st
	return st
}

// write returns the error of WriteSCTP; accepted messages are appended to the sent history.
func (s *sim) write(side int, sid uint16, n int, ppi PayloadProtocolIdentifier) error {
	st := s.openStream(side, sid)
	if st == nil {
		return errors.New("no stream")
	}
	idx := len(s.sent[side][sid])
	st.lock.RLock()
	un := st.unordered && ppi != PayloadTypeWebRTCDCEP
	st.lock.RUnlock()
	ev := &simEvent{kind: "write", side: side, sid: sid, n: n}
	for _, o := range s.obs {
		o.before(s, ev)
	}
	w, err := st.WriteSCTP(simPayload(side, sid, idx, n), ppi)
	s.logEvent("write side=%d sid=%d n=%d ppi=%d -> %d,%v", side, sid, n, ppi, w, err)
	if err == nil && n > 0 {
		s.sent[side][sid] = append(s.sent[side][sid], simMsg{sid: sid, ppi: ppi, idx: idx, n: n, unordered: un})
	}
	s.settle()
	ev.err = err
	for _, o := range s.obs {
		o.after(s, ev)
	}
	return err
}

// readAll drains every readable message on both sides (harness-controlled reading: nothing is
// read at any other time, so snapshots between events are stable).
func (s *sim) readAll() {
	for side := 0; side < 2; side++ {
		s.readSide(side, 1<<30)
	}
}

func (s *sim) readSide(side int, maxMsgs int) int {
	a := s.assoc[side]
	if a == nil {
		return 0
	}
	// accept new inbound streams without blocking
	for {
		select {
		case st, ok := <-a.acceptCh:
			if !ok || st == nil {
				goto accepted
			}
			if _, known := s.streams[side][st.streamIdentifier]; !known {
				s.streams[side][st.streamIdentifier] = st
			}
			continue
		default:
		}
		break
	}
accepted:
	n := 0
	buf := make([]byte, 1<<17)
	sids := make([]int, 0, len(s.streams[side]))
	for sid := range s.streams[side] {
		sids = append(sids, int(sid))
	}
	sort.Ints(sids)
	for _, sidI := range sids {
		sid := uint16(sidI)
		st := s.streams[side][sid]
		for n < maxMsgs {
			st.lock.RLock()
			readable := st.reassemblyQueue.isReadable()
			st.lock.RUnlock()
			if !readable {
				break
			}
			k, ppi, err := st.ReadSCTP(buf)
			if err != nil {
				s.fail("C18", fmt.Sprintf("read on readable stream failed: side=%d sid=%d err=%v", side, sid, err))
				break
			}
			s.onRead(side, sid, buf[:k], ppi)
			n++
		}
	}
	return n
}

// onRead matches a delivered message against the peer's written history (content identifies it).
func (s *sim) onRead(side int, sid uint16, data []byte, ppi PayloadProtocolIdentifier) {
	peer := 1 - side
	found := -1
	already := map[int]bool{}
	for _, r := range s.recvd[side][sid] {
		already[r.idx] = true
	}
	for _, m := range s.sent[peer][sid] {
		if m.n == len(data) && m.ppi == ppi && string(simPayload(peer, sid, m.idx, m.n)) == string(data) {
			if found < 0 {
				found = m.idx
			}
			if !already[m.idx] { // equal contents (short messages): prefer one not delivered yet
				found = m.idx
				break
			}
		}
	}
	s.logEvent("read side=%d sid=%d len=%d ppi=%d -> msg#%d", side, sid, len(data), ppi, found)
	if found < 0 {
		s.fail("C01", fmt.Sprintf("delivered message is not one of the written messages (altered/merged/truncated): side=%d sid=%d len=%d ppi=%d", side, sid, len(data), ppi))
		s.fail("C06", fmt.Sprintf("delivered message is not one of the written messages: side=%d sid=%d len=%d", side, sid, len(data)))
		return
	}
	for _, r := range s.recvd[side][sid] {
		if r.idx == found {
			s.fail("C01", fmt.Sprintf("message delivered twice: side=%d sid=%d msg#%d", side, sid, found))
			s.fail("C06", fmt.Sprintf("message delivered twice: side=%d sid=%d msg#%d", side, sid, found))
		}
	}
	m := s.sent[peer][sid][found]
	s.recvd[side][sid] = append(s.recvd[side][sid], m)
}

// ---------------------------------------------------------------- wire monitors

func (s *sim) onEmit(p *simPkt) {
	side := p.from
	a := s.assoc[side]
	if p.pkt == nil {
		s.fail("C12", fmt.Sprintf("emitted packet does not decode: side=%d id=%d", side, p.id))
		return
	}
	// C12 / C10: size and re-encode stability of every emitted packet
	hasData := false
	for _, c := range p.pkt.chunks {
		if _, ok := c.(*chunkPayloadData); ok {
			hasData = true
		}
	}
	if a != nil && hasData && len(p.raw) > int(a.MTU()) {
		s.fail("C10", fmt.Sprintf("packet with user data exceeds MTU: side=%d len=%d mtu=%d %s", side, len(p.raw), a.MTU(), pktSummary(p)))
	}
	if len(p.raw)%4 != 0 {
		s.fail("C12", fmt.Sprintf("emitted packet length %d is not a multiple of 4: %s", len(p.raw), pktSummary(p)))
	}
	// C13: checksum field
	field := uint32(p.raw[8]) | uint32(p.raw[9])<<8 | uint32(p.raw[10])<<16 | uint32(p.raw[11])<<24
	mand := false
	for _, c := range p.pkt.chunks {
		switch c.(type) {
		case *chunkInit, *chunkCookieEcho:
			mand = true
		}
	}
	peerAccepts := (side == 0 && s.opts.zeroB) || (side == 1 && s.opts.zeroA)
	if field == 0 {
		if !peerAccepts || mand {
			s.fail("C13", fmt.Sprintf("zero checksum emitted although not permitted: side=%d peerAccepts=%v mandatory=%v %s", side, peerAccepts, mand, pktSummary(p)))
		}
	} else if generatePacketChecksum(p.raw) != field {
		s.fail("C13", fmt.Sprintf("emitted checksum is wrong: side=%d %s", side, pktSummary(p)))
	}
	for _, c := range p.pkt.chunks {
		switch v := c.(type) {
		case *chunkPayloadData:
			s.txCount[side][v.tsn]++
			if s.txCount[side][v.tsn] == 1 {
				s.firstTx[side][v.tsn] = len(v.userData)
				s.checkWindowOnFirstTx(side, p, v)
			}
			if a != nil && uint32(len(v.userData)) > a.maxPayloadSize {
				s.fail("C10", fmt.Sprintf("fragment larger than max payload size: len=%d max=%d", len(v.userData), a.maxPayloadSize))
			}
			if a != nil && v.isIData() != a.useInterleaving {
				s.fail("C17", fmt.Sprintf("payload chunk kind does not match negotiated interleaving: side=%d idata=%v use=%v", side, v.isIData(), a.useInterleaving))
			}
		case *chunkSelectiveAck:
			s.checkSack(side, v)
		case *chunkForwardTSN:
			if a != nil && a.useInterleaving {
				s.fail("C17", "FORWARD-TSN emitted although interleaving negotiated")
			}
		case *chunkIForwardTSN:
			if a != nil && !a.useInterleaving {
				s.fail("C17", "I-FORWARD-TSN emitted without interleaving negotiated")
			}
		}
	}
}

// checkSack: P_C05 on the wire — the SACK emitted by `side` may only name TSNs delivered to it.
func (s *sim) checkSack(side int, v *chunkSelectiveAck) {
	if s.sackSeen[side] && sna32LT(v.cumulativeTSNAck, s.sackCum[side]) {
		s.fail("C05", fmt.Sprintf("cumulative ack moved backwards: side=%d %d -> %d", side, s.sackCum[side], v.cumulativeTSNAck))
	}
	a := s.assoc[side]
	if a != nil {
		base := a.payloadQueue.getcumulativeTSN() // settled snapshot (no reads since emission are possible)
		_ = base
	}
	// every TSN in (previous cum, cum] must have been delivered or forwarded
	if s.sackSeen[side] {
		for tsn := s.sackCum[side] + 1; sna32LTE(tsn, v.cumulativeTSNAck); tsn++ {
			if !s.deliveredTSN[side][tsn] && !s.forwarded(side, tsn) {
				s.fail("C05", fmt.Sprintf("cumulative ack %d covers TSN %d which was neither delivered nor forwarded: side=%d", v.cumulativeTSNAck, tsn, side))
				break
			}
		}
	}
	s.sackCum[side] = v.cumulativeTSNAck
	s.sackSeen[side] = true
	for _, g := range v.gapAckBlocks {
		for o := uint32(g.start); o <= uint32(g.end); o++ {
			tsn := v.cumulativeTSNAck + o
			if !s.deliveredTSN[side][tsn] {
				s.fail("C05", fmt.Sprintf("gap block %d-%d names TSN %d which was never delivered: side=%d cum=%d", g.start, g.end, tsn, side, v.cumulativeTSNAck))
				return
			}
		}
	}
	// C11: advertised credit = buffer - bytes held (white-box, at the settled point after emission)
	if a != nil {
		a.lock.RLock()
		var held uint32
		for _, st := range a.streams {
			held += uint32(st.getNumBytesInReassemblyQueue())
		}
		want := uint32(0)
		if held < a.maxReceiveBufferSize {
			want = a.maxReceiveBufferSize - held
		}
		a.lock.RUnlock()
		if v.advertisedReceiverWindowCredit != want {
			s.fail("C11", fmt.Sprintf("a_rwnd=%d but buffer-held=%d (held=%d): side=%d", v.advertisedReceiverWindowCredit, want, held, side))
		}
	}
}

func (s *sim) forwarded(side int, tsn uint32) bool {
	for _, f := range s.fwdTo[side] {
		if sna32LTE(tsn, f) {
			return true
		}
	}
	return false
}

// checkWindowOnFirstTx: P_C10 — a first transmission must fit cwnd and the last advertised a_rwnd,
// or be the lone probe when nothing else is outstanding.
func (s *sim) checkWindowOnFirstTx(side int, p *simPkt, v *chunkPayloadData) {
	a := s.assoc[side]
	if a == nil {
		return
	}
	// outstanding user bytes on the wire view: first transmissions not yet acked by a delivered SACK
	out := 0
	for tsn, n := range s.firstTx[side] {
		if !s.ackedByPeer[side][tsn] {
			out += n
		}
	}
	before := out - len(v.userData)
	cwnd := int(p.cwnd)
	arwnd := int(s.peerInitRwnd[side])
	if s.haveARwnd[side] {
		arwnd = int(s.lastARwnd[side])
	}
	// new chunks of this packet sent together are each checked cumulatively (map order is irrelevant:
	// `out` already contains all first transmissions seen so far including this one)
	if before == 0 {
		// probe / first chunk when nothing was outstanding; remember whether it overshot a non-zero window
		s.probeOversize[side] = len(v.userData) > arwnd && arwnd > 0
		return
	}
	if out > cwnd {
		s.fail("C10", fmt.Sprintf("new data beyond cwnd: side=%d outstanding=%d cwnd=%d tsn=%d len=%d", side, out, cwnd, v.tsn, len(v.userData)))
	}
	if out > arwnd {
		key := "beyond-arwnd"
		if s.probeOversize[side] {
			key = "stale-rwnd-after-oversize-probe"
		}
		s.fail("C10", fmt.Sprintf("new data beyond peer's advertised window (%s): side=%d outstanding=%d a_rwnd=%d tsn=%d len=%d", key, side, out, arwnd, v.tsn, len(v.userData)))
	}
}

func (s *sim) onDeliver(p *simPkt, to int) {
	if p.pkt == nil {
		return
	}
	from := 1 - to
	for _, c := range p.pkt.chunks {
		switch v := c.(type) {
		case *chunkPayloadData:
			s.deliveredTSN[to][v.tsn] = true
		case *chunkForwardTSN:
			s.fwdTo[to] = append(s.fwdTo[to], v.newCumulativeTSN)
		case *chunkIForwardTSN:
			s.fwdTo[to] = append(s.fwdTo[to], v.newCumulativeTSN)
		case *chunkSelectiveAck:
			// delivered to the data sender `to`: marks its TSNs as acked (wire view)
			for tsn := range s.firstTx[to] {
				if sna32LTE(tsn, v.cumulativeTSNAck) {
					s.ackedByPeer[to][tsn] = true
				}
			}
			for _, g := range v.gapAckBlocks {
				for o := uint32(g.start); o <= uint32(g.end); o++ {
					s.ackedByPeer[to][v.cumulativeTSNAck+o] = true
				}
			}
			s.lastARwnd[to] = v.advertisedReceiverWindowCredit
			s.haveARwnd[to] = true
			s.probeOversize[to] = false
		case *chunkShutdown:
			// RFC 9260 9.2: SHUTDOWN carries a cumulative TSN ack (no gap blocks, no window): the data
			// sender `to` may count those TSNs as acknowledged; the last advertised a_rwnd stands
			for tsn := range s.firstTx[to] {
				if sna32LTE(tsn, v.cumulativeTSNAck) {
					s.ackedByPeer[to][tsn] = true
				}
			}
		case *chunkInit:
			s.peerInitRwnd[to] = v.advertisedReceiverWindowCredit
		case *chunkInitAck:
			s.peerInitRwnd[to] = v.advertisedReceiverWindowCredit
		}
	}
	_ = from
}

// ---------------------------------------------------------------- white-box checks at quiescent points

// checkBuffered: P_C15 — per stream buffered amount = bytes of the stream in pending ∪ un-acked in-flight.
func (s *sim) checkBuffered(side int) {
	a := s.assoc[side]
	if a == nil {
		return
	}
	a.lock.RLock()
	per := map[uint16]uint64{}
	total := 0
	for i := 0; i < a.inflightQueue.chunks.Len(); i++ {
		c := a.inflightQueue.chunks.At(i)
		if !c.acked {
			per[c.streamIdentifier] += uint64(len(c.userData))
		}
		total += len(c.userData)
	}
	inflightBytes := a.inflightQueue.getNumBytes()
	pendingBytes := a.pendingQueue.getNumBytes()
	var pend []*chunkPayloadData
	simPendingChunks(a.pendingQueue, &pend)
	ptotal := 0
	for _, c := range pend {
		per[c.streamIdentifier] += uint64(len(c.userData))
		ptotal += len(c.userData)
	}
	streams := map[uint16]*Stream{}
	for k, v := range a.streams {
		streams[k] = v
	}
	a.lock.RUnlock()
	if total != inflightBytes {
		s.fail("C15", fmt.Sprintf("in-flight byte counter %d != bytes held %d: side=%d", inflightBytes, total, side))
	}
	if ptotal != pendingBytes {
		s.fail("C15", fmt.Sprintf("pending byte counter %d != bytes queued %d: side=%d", pendingBytes, ptotal, side))
	}
	if a.BufferedAmount() != inflightBytes+pendingBytes {
		s.fail("C15", fmt.Sprintf("association BufferedAmount %d != pending+inflight %d", a.BufferedAmount(), inflightBytes+pendingBytes))
	}
	for sid, st := range streams {
		if st.BufferedAmount() != per[sid] {
			s.fail("C15", fmt.Sprintf("stream buffered amount %d != pending+unacked in-flight bytes %d: side=%d sid=%d", st.BufferedAmount(), per[sid], side, sid))
		}
	}
}

// checkLossResponse: P_C10 "cwnd is cut on every loss signal" — a chunk newly marked as lost (retransmit flag set
// on an original transmission) must come with a congestion response: T3 fired, fast recovery is/was entered, or
// cwnd went down since the previous quiescent point.
type lossSnap struct {
	marked map[uint32]bool
	cwnd   uint32
	t3     uint64
	infr   bool
	valid  bool
}

func (s *sim) checkLossResponse() {
	for side := 0; side < 2; side++ {
		a := s.assoc[side]
		if a == nil {
			continue
		}
		a.lock.RLock()
		cur := lossSnap{marked: map[uint32]bool{}, cwnd: a.CWND(), t3: a.stats.getNumT3Timeouts(), infr: a.inFastRecovery, valid: true}
		newly := []uint32{}
		lastUnacked, haveLast := uint32(0), false
		for i := 0; i < a.inflightQueue.chunks.Len(); i++ {
			c := a.inflightQueue.chunks.At(i)
			if !c.acked && !c.abandoned() {
				lastUnacked, haveLast = c.tsn, true
			}
			if c.retransmit && !c.acked {
				cur.marked[c.tsn] = true
				if s.loss[side].valid && !s.loss[side].marked[c.tsn] && c.nSent == 1 {
					newly = append(newly, c.tsn)
				}
			}
		}
		a.lock.RUnlock()
		prev := s.loss[side]
		// a tail-loss probe (PTO timer, RFC 8985 7.3) marks exactly the most recently sent outstanding chunk for
		// retransmission; it is a probe, not a loss signal, and carries no congestion response
		tailProbe := len(newly) == 1 && haveLast && newly[0] == lastUnacked
		if prev.valid && len(newly) > 0 && !tailProbe && cur.t3 == prev.t3 && !cur.infr && !prev.infr && cur.cwnd >= prev.cwnd {
			s.fail("C10", fmt.Sprintf("chunks marked lost without any congestion response (loss-marked-without-cwnd-cut): side=%d tsns=%v cwnd %d -> %d", side, newly, prev.cwnd, cur.cwnd))
		}
		s.loss[side] = cur
	}
}

// checkNoStallInvariant: P_C02 at quiescent points — outstanding data always has a retransmission source
// armed, and queued data is never left waiting with nothing in flight.
func (s *sim) checkNoStallInvariant() {
	for side := 0; side < 2; side++ {
		a := s.assoc[side]
		if a == nil {
			continue
		}
		a.lock.RLock()
		st := a.getState()
		nInfl, nPend := a.inflightQueue.size(), a.pendingQueue.size()
		userPend := a.pendingQueue.getNumBytes()
		a.lock.RUnlock()
		if st != established && st != shutdownPending && st != shutdownReceived {
			continue
		}
		if nInfl > 0 && !a.t3RTX.isRunning() {
			s.fail("C02", fmt.Sprintf("data in flight but the T3 retransmission timer is not running (t3-not-armed-with-outstanding-data): side=%d inflight=%d", side, nInfl))
		}
		if nInfl == 0 && nPend > 0 && userPend > 0 {
			s.fail("C02", fmt.Sprintf("user data is queued but nothing is in flight at a quiescent point (pending-data-not-sent): side=%d pending=%d bytes=%d rwnd=%d cwnd=%d", side, nPend, userPend, a.RWND(), a.CWND()))
		}
	}
}

// ---------------------------------------------------------------- end-of-run predicates

// checkOrderedPrefix: P_C01 safety — on every ordered stream the read sequence is a prefix of the
// written sequence (content was matched in onRead).
func (s *sim) checkOrderedPrefix(final bool) {
	for side := 0; side < 2; side++ {
		peer := 1 - side
		for sid, got := range s.recvd[side] {
			want := s.sent[peer][sid]
			// ordered messages only
			var wantO, gotO []simMsg
			for _, m := range want {
				if !m.unordered {
					wantO = append(wantO, m)
				}
			}
			for _, m := range got {
				if !m.unordered {
					gotO = append(gotO, m)
				}
			}
			for i, m := range gotO {
				if i >= len(wantO) || wantO[i].idx != m.idx {
					exp := -1
					if i < len(wantO) {
						exp = wantO[i].idx
					}
					s.fail("C01", fmt.Sprintf("ordered stream delivered msg#%d at position %d, expected msg#%d (lost/reordered): side=%d sid=%d", m.idx, i, exp, side, sid))
					break
				}
			}
		}
		if final {
			for sid, want := range s.sent[peer] {
				if len(s.recvd[side][sid]) != len(want) {
					s.fail("C02", fmt.Sprintf("after the network healed %d of %d reliable messages were delivered: receiver side=%d sid=%d", len(s.recvd[side][sid]), len(want), side, sid))
				}
			}
		}
	}
}

func (s *sim) allDelivered() bool {
	for side := 0; side < 2; side++ {
		peer := 1 - side
		for sid, want := range s.sent[peer] {
			if len(s.recvd[side][sid]) != len(want) {
				return false
			}
		}
		if a := s.assoc[side]; a != nil && a.BufferedAmount() != 0 {
			return false
		}
	}
	return true
}

func (s *sim) closeBoth() {
	for side := 0; side < 2; side++ {
		if s.assoc[side] != nil {
			_ = s.assoc[side].Close()
		}
	}
	synctest.Wait()
}

func (s *sim) report() {
	for _, f := range s.fails {
		fmt.Println(f)
	}
	if len(s.fails) > 0 && os.Getenv("VERIF_SIMEVENTS") != "" {
		for _, e := range s.events {
			fmt.Println("  EVENT " + e)
		}
	}
}

// establish drives a fault-free handshake to completion.
func (s *sim) establish() bool {
	s.startHandshake(false)
	s.settle()
	ok := s.runFaultFree(30*time.Second, 100*time.Millisecond, func() bool { return s.hsFinished(0) && s.hsFinished(1) })
	return ok && s.hsErr[0] == nil && s.hsErr[1] == nil
}

// ---------------------------------------------------------------- scenario: data transfer under faults

type xferStats struct {
	scenarios, events, packets, msgs, fails int
	faults                                  map[string]int
}

func simRandomOpts(rng *rand.Rand, seed int64) simOpts {
	o := simOpts{seed: seed, interleaveA: -1, interleaveB: -1, setTSN: true}
	switch rng.Intn(4) {
	case 0:
		o.tsnA, o.tsnB = rng.Uint32(), rng.Uint32()
	case 1: // within a few thousand TSNs of the 2^32 wrap
		o.tsnA = uint32(0) - uint32(rng.Intn(3000)) - 1
		o.tsnB = uint32(0) - uint32(rng.Intn(3000)) - 1
	default: // the wrap happens within the first few dozen chunks, i.e. inside the faulty phase of the run
		o.tsnA = uint32(0) - uint32(rng.Intn(60)) - 1
		o.tsnB = uint32(0) - uint32(rng.Intn(60)) - 1
	}
	mtus := []uint32{0, 1191, 1200, 576, 300, 1500, 8192} // > receiveMTU (8192) cannot be read by a pion peer
	o.mtu = mtus[rng.Intn(len(mtus))]
	bufs := []uint32{0, 1024 * 1024, 64 * 1024, 16 * 1024, 4000, 300000}
	o.recvBuf = bufs[rng.Intn(len(bufs))]
	o.interleaveA = rng.Intn(3) - 1
	o.interleaveB = rng.Intn(3) - 1
	o.zeroA = rng.Intn(2) == 0
	o.zeroB = rng.Intn(2) == 0
	o.schedRR = rng.Intn(3) == 0
	if rng.Intn(4) == 0 {
		o.rtoMax = 3000
	}
	o.ackMode = ackModeNormal
	if rng.Intn(5) == 0 {
		o.ackMode = ackModeNoDelay
	}
	return o
}

func simMsgSize(rng *rand.Rand, a *Association) int {
	mp := int(a.maxPayloadSize)
	switch rng.Intn(10) {
	case 0:
		return 1
	case 1:
		return mp
	case 2:
		return mp + 1
	case 3:
		return mp - 1
	case 4:
		return 2*mp + rng.Intn(3) - 1
	case 5:
		return 1 + rng.Intn(int(a.maxMessageSize))
	case 6:
		return int(a.maxMessageSize)
	default:
		return 1 + rng.Intn(3*mp)
	}
}

// runTransferScenario: handshake, then a random interleaving of writes, reads, deliveries, drops,
// duplications, reorderings and clock advances; then a fault-free suffix until everything is
// delivered (bounded), with the monitors active throughout.
func runTransferScenario(t *testing.T, seed int64, nEvents int, st *xferStats) []string {
	var fails []string
	synctest.Test(t, func(t *testing.T) {
		rng := rand.New(rand.NewSource(seed))
		o := simRandomOpts(rng, seed)
		if simForceTSN != nil {
			o.tsnA, o.tsnB = simForceTSN[0], simForceTSN[1]
		}
		s := newSim(t, o, fmt.Sprintf("transfer/tsnA=%d/tsnB=%d/mtu=%d/buf=%d/il=%d,%d/zc=%v,%v/rr=%v", o.tsnA, o.tsnB, o.mtu, o.recvBuf, o.interleaveA, o.interleaveB, o.zeroA, o.zeroB, o.schedRR))
		if !s.establish() {
			s.fail("C04", fmt.Sprintf("fault-free handshake did not complete: errs=%v,%v", s.hsErr[0], s.hsErr[1]))
			s.closeBoth()
			fails = s.fails
			s.report()
			return
		}
		nStreams := 1 + rng.Intn(4)
		lossy := rng.Intn(100)
		pLoss := []int{0, 2, 10, 30}[rng.Intn(4)]
		_ = lossy
		slowReader := rng.Intn(4) == 0
		for ev := 0; ev < nEvents; ev++ {
			r := rng.Intn(100)
			switch {
			case r < 22:
				side := rng.Intn(2)
				sid := uint16(rng.Intn(nStreams))
				a := s.assoc[side]
				n := simMsgSize(rng, a)
				// keep the in-progress volume within the receive buffer (hypothesis "fits" of C02)
				peerBuf := int(s.assoc[1-side].maxReceiveBufferSize)
				if n > peerBuf/4 {
					n = 1 + n%(peerBuf/4)
				}
				if a.BufferedAmount()+n > peerBuf/2 {
					continue
				}
				ppi := PayloadTypeWebRTCBinary
				if rng.Intn(8) == 0 {
					ppi = PayloadTypeWebRTCString
				}
				_ = s.write(side, sid, n, ppi)
				st.msgs++
			case r < 60:
				from := rng.Intn(2)
				if len(s.flight[from]) == 0 {
					from = 1 - from
				}
				if len(s.flight[from]) == 0 {
					s.advance(time.Duration(1+rng.Intn(300)) * time.Millisecond)
					continue
				}
				idx := 0
				if rng.Intn(4) == 0 {
					idx = rng.Intn(len(s.flight[from])) // reordering
					st.faults["reorder"]++
				}
				f := rng.Intn(100)
				switch {
				case f < pLoss:
					s.drop(from, idx)
					st.faults["drop"]++
				case f < pLoss+5:
					s.deliver(from, idx, true) // duplicate: deliver and keep
					st.faults["dup"]++
				default:
					s.deliver(from, idx, false)
				}
			case r < 72:
				if !slowReader || rng.Intn(5) == 0 {
					s.readAll()
				}
			case r < 80:
				s.advance(time.Duration(1+rng.Intn(1500)) * time.Millisecond)
			default:
				// burst: deliver everything parked in one direction in order
				from := rng.Intn(2)
				for k := 0; k < 20 && len(s.flight[from]) > 0; k++ {
					s.deliver(from, 0, false)
				}
			}
			st.events++
			s.checkNoStallInvariant()
			s.checkLossResponse()
			if ev%7 == 0 {
				s.checkBuffered(0)
				s.checkBuffered(1)
				s.checkOrderedPrefix(false)
			}
			if len(s.fails) > 0 {
				break
			}
		}
		// heal: fault-free suffix; bound = a few RTO.max (default 60 s; configured 3 s)
		bound := 4 * 60 * time.Second
		if o.rtoMax > 0 {
			bound = 4 * time.Duration(o.rtoMax) * time.Millisecond
			if bound < 20*time.Second {
				bound = 20 * time.Second
			}
		}
		if len(s.fails) == 0 {
			healed := s.runFaultFree(bound, 50*time.Millisecond, s.allDelivered)
			s.checkOrderedPrefix(true)
			if !healed {
				for side := 0; side < 2; side++ {
					if a := s.assoc[side]; a.BufferedAmount() != 0 {
						s.fail("C02", fmt.Sprintf("sender still reports %d buffered bytes %v after the network healed: side=%d state=%s inflight=%d pending=%d rwnd=%d cwnd=%d", a.BufferedAmount(), bound, side, getAssociationStateString(a.getState()), a.inflightQueue.size(), a.pendingQueue.size(), a.RWND(), a.CWND()))
					}
				}
			}
			s.checkBuffered(0)
			s.checkBuffered(1)
			// C11: after everything was read the advertised window is the full buffer again
			for side := 0; side < 2; side++ {
				a := s.assoc[side]
				a.lock.RLock()
				cr := a.getMyReceiverWindowCredit()
				a.lock.RUnlock()
				if healed && cr != a.maxReceiveBufferSize {
					s.fail("C11", fmt.Sprintf("receive window %d != buffer %d after the application read everything: side=%d", cr, a.maxReceiveBufferSize, side))
				}
			}
		}
		st.packets += len(s.wire)
		if simTraceSink != nil {
			*simTraceSink = s.normalizedTrace()
		}
		s.closeBoth()
		fails = s.fails
		s.report()
	})
	return fails
}

// offset sweep (C16): the same seeded scenario is run with different initial TSNs; the traces, with every
// TSN expressed relative to its sender's initial TSN, must be identical.
var (
	simForceTSN  *[2]uint32
	simTraceSink *[]string
)

// normalizedTrace: the observable outcome of a run — what each side delivered per stream (in order) and the
// final state.  (Packet-by-packet traces are not compared: when timers of both sides fire at the same virtual
// instant the goroutine scheduler decides the emission order, so two runs of one seed may interleave
// differently although each is a legal execution.)
func (s *sim) normalizedTrace() []string {
	out := []string{}
	for side := 0; side < 2; side++ {
		for sid := uint16(0); sid < 8; sid++ {
			line := fmt.Sprintf("delivered side=%d sid=%d:", side, sid)
			ord, unord := []int{}, []int{}
			for _, m := range s.recvd[side][sid] {
				if m.unordered {
					unord = append(unord, m.idx)
				} else {
					ord = append(ord, m.idx)
				}
			}
			sort.Ints(unord)
			out = append(out, fmt.Sprintf("%s ordered=%v unordered=%v", line, ord, unord))
		}
		if a := s.assoc[side]; a != nil {
			a.lock.RLock()
			out = append(out, fmt.Sprintf("final side=%d state=%d buffered=%d inflight=%d pending=%d credit=%d sent_tsns=%d acked_to=%d",
				side, a.getState(), a.pendingQueue.getNumBytes()+a.inflightQueue.getNumBytes(), a.inflightQueue.size(), a.pendingQueue.size(),
				a.getMyReceiverWindowCredit(), a.myNextTSN-a.initialTSN, a.cumulativeTSNAckPoint+1-a.initialTSN))
			a.lock.RUnlock()
		}
	}
	return out
}

func TestVerifSimShift(t *testing.T) {
	seed := verifEnvInt("VERIF_SEED", 1)
	n := int(verifEnvInt("VERIF_N", 15))
	nEvents := int(verifEnvInt("VERIF_EVENTS", 200))
	diffs, runs := 0, 0
	defer func() { simForceTSN, simTraceSink = nil, nil }()
	for i := 0; i < n; i++ {
		sd := seed*1000003 + int64(i)
		var ref []string
		bases := [][2]uint32{{1000, 2000000}, {1000, 2000000}, {^uint32(0) - 3, ^uint32(0) - 40}, {^uint32(0) - 200, 5}, {^uint32(0) - uint32(1000+i*37), ^uint32(0) - uint32(7*i)}, {1 << 31, 1<<31 - 10}}
		for bi, b := range bases {
			var tr []string
			bb := b
			simForceTSN, simTraceSink = &bb, &tr
			st := &xferStats{faults: map[string]int{}}
			runTransferScenario(t, sd, nEvents, st)
			runs++
			if bi == 0 {
				ref = tr
				continue
			}
			if len(tr) != len(ref) {
				diffs++
				fmt.Printf("SIMFAIL prop=C16 same scenario, different initial TSNs, different behaviour (association-offset-sweep): seed=%d bases=%v trace lengths %d vs %d\n", sd, b, len(ref), len(tr))
				continue
			}
			for k := range ref {
				if ref[k] != tr[k] {
					diffs++
					fmt.Printf("SIMFAIL prop=C16 same scenario, different initial TSNs, different behaviour (association-offset-sweep): seed=%d bases=%v first difference at %d: [%s] vs [%s]\n", sd, b, k, ref[k], tr[k])
					break
				}
			}
		}
	}
	fmt.Printf("SIMSHIFT scenarios=%d runs=%d diffs=%d\n", n, runs, diffs)
}

func TestVerifSimTransfer(t *testing.T) {
	seed := verifEnvInt("VERIF_SEED", 1)
	n := int(verifEnvInt("VERIF_N", 40))
	nEvents := int(verifEnvInt("VERIF_EVENTS", 250))
	st := &xferStats{faults: map[string]int{}}
	for i := 0; i < n; i++ {
		fails := runTransferScenario(t, seed*1000003+int64(i), nEvents, st)
		st.scenarios++
		st.fails += len(fails)
	}
	fmt.Printf("SIMTRANSFER scenarios=%d events=%d packets=%d messages=%d drops=%d dups=%d reorders=%d fails=%d\n",
		st.scenarios, st.events, st.packets, st.msgs, st.faults["drop"], st.faults["dup"], st.faults["reorder"], st.fails)
}

var _ = context.Background

// simPendingChunks enumerates the chunks held by a pendingQueue (white-box, any policy).
func simPendingChunks(q *pendingQueue, out *[]*chunkPayloadData) {
	add := func(b *pendingBaseQueue) {
		if b == nil {
			return
		}
		for _, c := range b.queue {
			if c != nil {
				*out = append(*out, c)
			}
		}
	}
	switch p := q.policy.(type) {
	case *messagePendingQueuePolicy:
		add(p.unorderedQueue)
		add(p.orderedQueue)
	case *interleavingStreamSchedulerPolicy:
		switch sch := p.scheduler.(type) {
		case *roundRobinPendingQueuePolicy:
			for _, b := range sch.streamQueues {
				add(b)
			}
		case *weightedFairQueueingPendingQueuePolicy:
			for _, b := range sch.streamQueues {
				add(b)
			}
		}
	}
}

func setRoundRobinStreamScheduler(s *interleavingSettings) {
	_ = WithInterleavingRoundRobinScheduler()(s)
}
