(* Teardown (C09): handshake families in which the T1 timer may exhaust its retransmissions.
   History: before aeda016 the connect call returned the handshake error and left the association running; a
   late COOKIE-ACK then blocked the read loop for ever in completeHandshake (D27).  After aeda016 one race was
   left: the failure callback of T1, already fired, took a.lock after the read loop had completed the handshake
   and blocked in completeHandshake(err) with the lock held (D31, schedule td_old_race_schedule).  After c7c80cb
   the callback re-checks the state under the lock; every T1 family passes every check. *)
From Coq Require Import Bool List PArith NArith.
From Sctp Require Import Gen Teardown TeardownProofs.
Import ListNotations.

Lemma td_families_t1_ok : forallb td_check_family td_families_t1 = true.
Proof. vm_cast_no_check (eq_refl true). Qed.

Definition td_sizes_t1 : list N := Eval vm_compute in map td_family_size td_families_t1.

(* The schedule that wedged the association before c7c80cb: the T1 failure callback has fired (1); the
   handshake-completing packet is handled (2) and the connect call returns the association (3); the callback
   gets a.lock (4); Abort() is called (5).  Step 4 now finds the state changed and returns: the lock is free,
   the callback is done, Abort() is not blocked. *)
Definition td_cfg_t1_abort := mkTdCfg TdPhHs TdInjAbort TdMixNone true false.
Definition td_old_race_schedule : list nat := [7; 2; 1; 4; 0].

Definition td_tfpc_is_done (x : td_tfpc) := match x with TdTfDone => true | _ => false end.
Definition td_cwpc_is_ok (x : td_cwpc) := match x with TdCwOk => true | _ => false end.
Definition td_abpc_is_flag (x : td_abpc) := match x with TdAbFlag => true | _ => false end.
Definition td_ast_is_est (x : td_ast) := match x with TdStEst => true | _ => false end.

Definition td_old_race_chk : bool :=
  match td_follow td_cfg_t1_abort (td_init td_cfg_t1_abort) td_old_race_schedule with
  | Some s => td_cwpc_is_ok (td_cw s) && td_tfpc_is_done (td_tf s) && negb (td_lk s) && td_abpc_is_flag (td_ab s) &&
              td_ast_is_est (td_st s) && negb (td_final td_cfg_t1_abort s) &&
              negb (td_is_nil (td_abort_caller s))
  | None => false
  end.

Lemma td_old_race_chk_ok : td_old_race_chk = true.
Proof. vm_cast_no_check (eq_refl true). Qed.

Lemma td_old_race_actors :
  td_path_actors td_cfg_t1_abort (td_init td_cfg_t1_abort) td_old_race_schedule
    = [TdAT1Fail; TdAEnv; TdARead; TdAT1Fail; TdAEnv].
Proof. vm_cast_no_check (eq_refl [TdAT1Fail; TdAEnv; TdARead; TdAT1Fail; TdAEnv]). Qed.

Lemma td_old_race_now_harmless :
  exists s, td_follow td_cfg_t1_abort (td_init td_cfg_t1_abort) td_old_race_schedule = Some s /\
            td_cw s = TdCwOk /\ td_tf s = TdTfDone /\ td_lk s = false /\ td_ab s = TdAbFlag /\ td_st s = TdStEst /\
            td_abort_caller s <> [].
Proof.
  pose proof td_old_race_chk_ok as H. unfold td_old_race_chk in H.
  destruct (td_follow td_cfg_t1_abort (td_init td_cfg_t1_abort) td_old_race_schedule) as [s|]; [|discriminate H].
  repeat (apply andb_true_iff in H; destruct H as [H ?]).
  exists s. split; [reflexivity|].
  split; [destruct (td_cw s); try discriminate; reflexivity|].
  split; [destruct (td_tf s); try discriminate; reflexivity|].
  split; [apply negb_true_iff; assumption|].
  split; [destruct (td_ab s); try discriminate; reflexivity|].
  split; [destruct (td_st s); try discriminate; reflexivity|].
  destruct (td_abort_caller s); [discriminate | discriminate].
Qed.
